(** The tournament tree of losers of mergedRowReader (merge.go:740).

    Positions 0..k-1 are the internal nodes, k+i is the leaf of buffer i, 2k a
    missing leaf; the children of p are 2p+1 and 2p+2.  [W] assigns to every
    position the winner of its subtree; the loser of the game played at p is
    stored in losers[p].  The invariant [Shape] says that [W] is consistent
    with the leaves, with the stored losers and with the comparison of the
    heads; it is established by playInitialGames and restored by replayGames
    after the head of the overall winner changed. *)
From Coq Require Import List ZArith Bool Arith Lia Sorting.Sorted Sorting.Permutation.
From PQ Require Import Generated.Consts Merge.Model Merge.AbstractProofs Merge.RunLengthProofs Merge.Merge2Proofs.
Import ListNotations.
Open Scope Z_scope.

(** * positions *)
Definition parent (p : nat) : nat := ((p - 1) / 2)%nat.

(* [up x q]: q is x or an ancestor of x *)
Inductive up (x : nat) : nat -> Prop :=
| up_refl : up x x
| up_step : forall q, (0 < q)%nat -> up x q -> up x (parent q).

Lemma parent_lt q : (0 < q)%nat -> (parent q < q)%nat.
Proof. intros H. unfold parent. apply Nat.div_lt_upper_bound; lia. Qed.

Lemma parent_child1 p : parent (2 * p + 1) = p.
Proof. unfold parent. replace (2 * p + 1 - 1)%nat with (p * 2)%nat by lia. now rewrite Nat.div_mul. Qed.

Lemma parent_child2 p : parent (2 * p + 2) = p.
Proof.
  unfold parent. replace (2 * p + 2 - 1)%nat with (1 + p * 2)%nat by lia.
  rewrite Nat.div_add by lia. cbn. lia.
Qed.

Lemma child_of_parent q : (0 < q)%nat -> q = (2 * parent q + 1)%nat \/ q = (2 * parent q + 2)%nat.
Proof.
  intros H. unfold parent.
  pose proof (Nat.div_mod (q - 1) 2 ltac:(lia)) as E.
  pose proof (Nat.mod_upper_bound (q - 1) 2 ltac:(lia)). lia.
Qed.

Lemma up_le x q : up x q -> (q <= x)%nat.
Proof. induction 1; [lia|]. pose proof (parent_lt q H). lia. Qed.

Lemma up_trans x q r : up x q -> up q r -> up x r.
Proof. intros H1 H2. induction H2; [exact H1|]. now apply up_step. Qed.

Lemma up_root x : up x 0.
Proof.
  induction x as [x IH] using lt_wf_ind. destruct x as [|x]; [constructor|].
  apply up_trans with (parent (S x)).
  - apply up_step; [lia|constructor].
  - apply IH. apply parent_lt. lia.
Qed.

(* an ancestor other than x itself is above the parent of x *)
Lemma up_strict x q : up x q -> q <> x -> up (parent x) q.
Proof.
  induction 1 as [|q Hq Hup IH]; intros Hne; [congruence|].
  destruct (Nat.eq_dec q x) as [->|Hqx]; [constructor|].
  apply up_step; auto.
Qed.

Lemma up_linear x a b : up x a -> up x b -> up a b \/ up b a.
Proof.
  intros Ha. revert b. induction Ha as [|a Ha0 Ha IH]; intros b Hb.
  - now left.
  - destruct (IH b Hb) as [H|H].
    + destruct (Nat.eq_dec b a) as [->|Hne].
      * right. apply up_step; [exact Ha0|constructor].
      * left. apply up_strict; auto.
    + right. now apply up_step.
Qed.

(* two siblings are not both on the path of x *)
Lemma up_siblings x a : up x (2 * a + 1) -> up x (2 * a + 2) -> False.
Proof.
  intros H1 H2. destruct (up_linear _ _ _ H1 H2) as [H|H].
  - apply up_le in H. lia.
  - assert (Hs : up (parent (2 * a + 2)) (2 * a + 1)) by (apply up_strict; [exact H|lia]).
    rewrite parent_child2 in Hs. apply up_le in Hs. lia.
Qed.

Lemma up_leaf k x q : (k <= q)%nat -> (x < 2 * k)%nat -> up x q -> q = x.
Proof.
  intros Hq Hx H. destruct (Nat.eq_dec q x) as [|Hne]; [assumption|].
  apply up_strict in H; [|exact Hne]. apply up_le in H. unfold parent in H.
  assert ((x - 1) / 2 < k)%nat by (apply Nat.div_lt_upper_bound; lia). lia.
Qed.

Lemma up_dec x : forall q, {up x q} + {~ up x q}.
Proof.
  induction x as [x IH] using (well_founded_induction lt_wf). intros q.
  destruct (Nat.eq_dec q x) as [->|Hne]; [left; constructor|].
  destruct x as [|x'].
  - right. intros H. apply up_le in H. lia.
  - destruct (IH (parent (S x')) (parent_lt (S x') ltac:(lia)) q) as [H|H].
    + left. eapply up_trans; [|exact H]. apply up_step; [lia|constructor].
    + right. intros Hu. apply H. apply up_strict; auto.
Qed.

Lemma leaf_parent_eq (x : nat) : (1 <= x)%nat -> leaf_parent (Z.of_nat x) = parent x.
Proof.
  intros H. unfold leaf_parent, parent.
  replace (Z.of_nat x - 1) with (Z.of_nat (x - 1)) by lia.
  change 2 with (Z.of_nat 2). rewrite <- Nat2Z.inj_div. apply Nat2Z.id.
Qed.

Section Tree.
  Variable K : Type.
  Variable cmp : K -> K -> Z.
  Hypothesis cmp_opp : forall a b, cmp a b < 0 <-> cmp b a > 0.
  Hypothesis cmp_trans : forall a b d, cmp a b <= 0 -> cmp b d <= 0 -> cmp a d <= 0.

  Notation row := (row K).
  Notation buf := (buf K).
  Notation rcmp := (rcmp cmp).
  Notation sorted := (sorted K cmp).
  Notation rle := (rle K cmp).
  Notation sched := (sched cmp).

  (** ** heads: [None] is an exhausted reader, which loses every game *)
  Definition ole (x y : option row) : Prop :=
    match y with
    | None => True
    | Some b => match x with Some a => rle a b | None => False end
    end.

  Lemma ole_refl x : ole x x.
  Proof. destruct x; cbn; auto. apply (rle_refl K cmp cmp_opp). Qed.

  Lemma ole_trans x y z : ole x y -> ole y z -> ole x z.
  Proof.
    destruct z as [c|]; cbn; auto. destruct y as [b|]; cbn; [|contradiction].
    destruct x as [a|]; cbn; [|contradiction]. apply (rle_trans K cmp cmp_trans).
  Qed.

  Definition lv (hd : nat -> option row) (i : nat) : Z :=
    match hd i with Some _ => Z.of_nat i | None => -1 end.

  (* the head of a player *)
  Definition ph (hd : nat -> option row) (a : Z) : option row :=
    if a <? 0 then None else hd (Z.to_nat a).

  Definition loser (L : list Z) (p : nat) : Z := nth p L (-1).

  Record Shape (k : nat) (L : list Z) (w : Z) (hd : nat -> option row) (W : nat -> Z) : Prop := {
    sh_len : length L = k;
    sh_leaf : forall i, (i < k)%nat -> W (k + i)%nat = lv hd i;
    sh_phantom : W (2 * k)%nat = -1;
    sh_node : forall p, (p < k)%nat ->
      (W p = W (2 * p + 1)%nat /\ loser L p = W (2 * p + 2)%nat) \/
      (W p = W (2 * p + 2)%nat /\ loser L p = W (2 * p + 1)%nat);
    sh_game : forall p, (p < k)%nat -> ole (ph hd (W p)) (ph hd (loser L p));
    sh_root : W 0%nat = w;
    sh_hd : forall i, (k <= i)%nat -> hd i = None }.

  Definition TreeInv (k : nat) (L : list Z) (w : Z) (hd : nat -> option row) : Prop :=
    exists W, Shape k L w hd W.

  Section Facts.
    Variables (k : nat) (L : list Z) (w : Z) (hd : nat -> option row) (W : nat -> Z).
    Hypothesis SH : Shape k L w hd W.

    (* the winner of a subtree is one of its live leaves (or negative) *)
    Lemma provenance : forall q, (q <= 2 * k)%nat -> 0 <= W q ->
      exists i, (i < k)%nat /\ W q = Z.of_nat i /\ up (k + i) q /\ hd i <> None.
    Proof.
      intros q. induction q as [q IH] using (well_founded_induction (well_founded_ltof _ (fun q => 2 * k - q)%nat)).
      unfold ltof in IH. intros Hq Hw.
      destruct (Nat.lt_ge_cases q k) as [Hlt|Hge].
      - destruct (sh_node _ _ _ _ _ SH q Hlt) as [[E _]|[E _]]; rewrite E in Hw.
        + destruct (IH (2 * q + 1)%nat ltac:(lia) ltac:(lia) Hw) as [i [Hi [Ei [Hu Hh]]]].
          exists i. repeat split; auto; [congruence|]. rewrite <- (parent_child1 q). apply up_step; [lia|exact Hu].
        + destruct (IH (2 * q + 2)%nat ltac:(lia) ltac:(lia) Hw) as [i [Hi [Ei [Hu Hh]]]].
          exists i. repeat split; auto; [congruence|]. rewrite <- (parent_child2 q). apply up_step; [lia|exact Hu].
      - destruct (Nat.eq_dec q (2 * k)) as [->|Hne].
        + rewrite (sh_phantom _ _ _ _ _ SH) in Hw. lia.
        + replace q with (k + (q - k))%nat in * by lia. set (i := (q - k)%nat) in *.
          rewrite (sh_leaf _ _ _ _ _ SH i ltac:(lia)) in *. unfold lv in *.
          destruct (hd i) eqn:Eh; [|lia]. exists i. repeat split; auto; try lia; [constructor|congruence].
    Qed.

    Lemma player_range q : (q <= 2 * k)%nat -> -1 <= W q < Z.of_nat k.
    Proof.
      intros Hq. destruct (Z_lt_le_dec (W q) 0) as [Hn|Hp].
      - split; [|lia].
        (* negative winners are -1 *)
        revert Hq Hn. induction q as [q IH] using (well_founded_induction (well_founded_ltof _ (fun q => 2 * k - q)%nat)).
        unfold ltof in IH. intros Hq Hn.
        destruct (Nat.lt_ge_cases q k) as [Hlt|Hge].
        + destruct (sh_node _ _ _ _ _ SH q Hlt) as [[E _]|[E _]]; rewrite E in *; apply IH; lia.
        + destruct (Nat.eq_dec q (2 * k)) as [->|Hne]; [rewrite (sh_phantom _ _ _ _ _ SH); lia|].
          replace q with (k + (q - k))%nat in * by lia.
          rewrite (sh_leaf _ _ _ _ _ SH (q - k)%nat ltac:(lia)) in *. unfold lv in *. destruct (hd (q - k)%nat); lia.
      - destruct (provenance q Hq Hp) as [i [Hi [Ei _]]]. lia.
    Qed.

    Lemma loser_is_child p : (p < k)%nat -> exists c, (c = 2 * p + 1 \/ c = 2 * p + 2)%nat /\ loser L p = W c.
    Proof.
      intros Hp. destruct (sh_node _ _ _ _ _ SH p Hp) as [[_ E]|[_ E]];
        [exists (2 * p + 2)%nat|exists (2 * p + 1)%nat]; split; auto.
    Qed.

    (* the winner of a subtree beats every leaf below it *)
    Lemma subtree_min i : (i < k)%nat -> forall q, up (k + i) q -> ole (ph hd (W q)) (hd i).
    Proof.
      intros Hi q Hu. induction Hu as [|q Hq Hu IH].
      - rewrite (sh_leaf _ _ _ _ _ SH i Hi). unfold lv. destruct (hd i) eqn:E; [|exact I].
        unfold ph. destruct (Z.ltb_spec (Z.of_nat i) 0); [lia|]. rewrite Nat2Z.id, E. apply ole_refl.
      - pose proof (up_le _ _ Hu) as Hle.
        assert (Hpk : (parent q < k)%nat).
        { unfold parent. apply Nat.div_lt_upper_bound; lia. }
        pose proof (sh_game _ _ _ _ _ SH _ Hpk) as Hg.
        destruct (child_of_parent q Hq) as [Ec|Ec];
          destruct (sh_node _ _ _ _ _ SH _ Hpk) as [[E1 E2]|[E1 E2]]; rewrite <- Ec in *.
        + rewrite E1. exact IH.
        + rewrite E2 in Hg. eapply ole_trans; eauto.
        + rewrite E2 in Hg. eapply ole_trans; eauto.
        + rewrite E1. exact IH.
    Qed.

    (** the overall winner is a minimal head *)
    Lemma winner_minimal i : (i < k)%nat -> ole (ph hd w) (hd i).
    Proof. intros Hi. rewrite <- (sh_root _ _ _ _ _ SH). apply subtree_min; auto. apply up_root. Qed.

    (** on the path of the overall winner every subtree is won by it *)
    Variable wn : nat.
    Hypothesis Hw : w = Z.of_nat wn.

    Lemma wn_lt : (wn < k)%nat.
    Proof.
      pose proof (player_range 0%nat ltac:(lia)) as H. rewrite (sh_root _ _ _ _ _ SH), Hw in H. lia.
    Qed.

    Lemma not_winner_above q : up (k + wn) q -> W q <> w -> forall r, up q r -> W r <> w.
    Proof.
      intros Hx Hq r Hr. induction Hr as [|r Hr0 Hr IH]; [exact Hq|].
      pose proof (up_trans _ _ _ Hx Hr) as Hxr. pose proof (up_le _ _ Hxr) as Hle. pose proof wn_lt.
      assert (Hpk : (parent r < k)%nat) by (unfold parent; apply Nat.div_lt_upper_bound; lia).
      intros Heq.
      assert (Hsib : forall s, (s <= 2 * k)%nat -> W s = w -> up (k + wn) s).
      { intros s Hs Es. destruct (provenance s Hs ltac:(lia)) as [i [Hi [Ei [Hu _]]]].
        assert (i = wn) by lia. now subst i. }
      destruct (child_of_parent r Hr0) as [Ec|Ec];
        destruct (sh_node _ _ _ _ _ SH _ Hpk) as [[E1 _]|[E1 _]]; try rewrite <- Ec in *.
      + apply IH. congruence.
      + apply (up_siblings (k + wn) (parent r)); [rewrite <- Ec; exact Hxr|]. apply Hsib; [lia|congruence].
      + apply (up_siblings (k + wn) (parent r)); [|rewrite <- Ec; exact Hxr]. apply Hsib; [lia|congruence].
      + apply IH. congruence.
    Qed.

    Lemma winner_path q : up (k + wn) q -> W q = w.
    Proof.
      intros Hx. destruct (Z.eq_dec (W q) w) as [|Hne]; [assumption|exfalso].
      apply (not_winner_above q Hx Hne 0%nat (up_root q)). apply (sh_root _ _ _ _ _ SH).
    Qed.

    Lemma winner_only_on_path q : (q <= 2 * k)%nat -> W q = w -> up (k + wn) q.
    Proof.
      intros Hq Es. destruct (provenance q Hq ltac:(lia)) as [i [Hi [Ei [Hu _]]]].
      assert (i = wn) by lia. now subst i.
    Qed.

    (* at a node of the path the stored loser is the winner of the other subtree *)
    Lemma path_loser c s : (0 < c)%nat -> up (k + wn) c ->
      ((c = 2 * parent c + 1 /\ s = 2 * parent c + 2) \/ (c = 2 * parent c + 2 /\ s = 2 * parent c + 1))%nat ->
      loser L (parent c) = W s /\ ~ up (k + wn) s.
    Proof.
      intros Hc Hu Hs. pose proof (up_le _ _ Hu) as Hle. pose proof wn_lt.
      assert (Hpk : (parent c < k)%nat) by (unfold parent; apply Nat.div_lt_upper_bound; lia).
      pose proof (winner_path c Hu) as Ec. pose proof (winner_path _ (up_step _ _ Hc Hu)) as Ep.
      assert (Hns : ~ up (k + wn) s).
      { intros Hus. destruct Hs as [[E1 E2]|[E1 E2]].
        - apply (up_siblings (k + wn) (parent c)); congruence.
        - apply (up_siblings (k + wn) (parent c)); congruence. }
      split; [|exact Hns].
      destruct Hs as [[E1 E2]|[E1 E2]];
        destruct (sh_node _ _ _ _ _ SH _ Hpk) as [[F1 F2]|[F1 F2]]; rewrite <- ?E1, <- ?E2 in *; congruence.
    Qed.

    (* players stored off the winner's path are not the winner *)
    Lemma off_path_players q : (q < k)%nat -> ~ up (k + wn) q -> W q <> w /\ loser L q <> w.
    Proof.
      intros Hq Hn. split.
      - intros E. apply Hn. apply winner_only_on_path; [lia|exact E].
      - intros E. destruct (loser_is_child q Hq) as [c [Hc Ec]]. apply Hn.
        assert (Hu : up (k + wn) c) by (apply winner_only_on_path; [lia|congruence]).
        destruct Hc as [-> | ->]; [rewrite <- (parent_child1 q)|rewrite <- (parent_child2 q)]; apply up_step; auto; lia.
    Qed.
  End Facts.

  (** ** replayGames restores the invariant *)
  Definition heads (bufs : list buf) (i : nat) : option row := head_of K bufs (Z.of_nat i).

  Lemma heads_overflow bufs i : (length bufs <= i)%nat -> heads bufs i = None.
  Proof. intros H. unfold heads, head_of. rewrite Nat2Z.id, nth_overflow by exact H. reflexivity. Qed.

  Lemma ph_heads bufs a : 0 <= a -> ph (heads bufs) a = head_of K bufs a.
  Proof. intros H. unfold ph, heads. destruct (Z.ltb_spec a 0); [lia|]. now rewrite Z2Nat.id. Qed.

  Lemma cmp_heads_some bufs a b x y : 0 <= a -> 0 <= b ->
    ph (heads bufs) a = Some x -> ph (heads bufs) b = Some y -> cmp_heads K cmp bufs a b = rcmp x y.
  Proof. intros Ha Hb. rewrite !ph_heads by assumption. unfold cmp_heads. now intros -> ->. Qed.

  Lemma nth_upd_eq (l : list Z) i x d : (i < length l)%nat -> nth i (upd l i x) d = x.
  Proof. apply nth_upd_same. Qed.

  Section Replay.
    Variables (k : nat) (L : list Z) (hd : nat -> option row) (W : nat -> Z) (wn : nat).
    Hypothesis SH : Shape k L (Z.of_nat wn) hd W.
    Variable bufs : list buf.
    Hypothesis Hlen : length bufs = k.
    Hypothesis Hagree : forall i, i <> wn -> heads bufs i = hd i.

    Let hd' := heads bufs.
    Let x := (k + wn)%nat.

    Definition node_ok (Lc : list Z) (Wc : nat -> Z) (q : nat) : Prop :=
      ((Wc q = Wc (2 * q + 1)%nat /\ loser Lc q = Wc (2 * q + 2)%nat) \/
       (Wc q = Wc (2 * q + 2)%nat /\ loser Lc q = Wc (2 * q + 1)%nat)) /\
      ole (ph hd' (Wc q)) (ph hd' (loser Lc q)).

    Record WI (c : nat) (cand : Z) (Lc : list Z) (Wc : nat -> Z) : Prop := {
      wi_up : up x c;
      wi_pos : (0 < c)%nat;
      wi_len : length Lc = k;
      wi_cand : Wc c = cand;
      wi_cand_hd : 0 <= cand -> ph hd' cand <> None;
      wi_leaf : forall i, (i < k)%nat -> Wc (k + i)%nat = lv hd' i;
      wi_phantom : Wc (2 * k)%nat = -1;
      wi_done : forall q, (q < k)%nat -> ~ up (parent c) q -> node_ok Lc Wc q;
      wi_todo : forall q, up (parent c) q -> loser Lc q = loser L q;
      wi_off : forall q, ~ up x q -> Wc q = W q }.

    Lemma wn_lt' : (wn < k)%nat.
    Proof. exact (wn_lt k L _ hd W SH wn eq_refl). Qed.

    Lemma parent_lt_k c : up x c -> (0 < c)%nat -> (parent c < k)%nat.
    Proof.
      intros Hu Hc. pose proof (up_le _ _ Hu). pose proof wn_lt'. unfold parent.
      apply Nat.div_lt_upper_bound; unfold x in *; lia.
    Qed.

    (* one game of the replay *)
    Definition game (Lc : list Z) (cand : Z) (p : nat) : list Z * Z :=
      let player := nth p Lc (-1) in
      if (0 <=? player) && ((cand <? 0) || (cmp_heads K cmp bufs player cand <? 0))
      then (upd Lc p cand, player) else (Lc, cand).

    Lemma game_step c cand Lc Wc : WI c cand Lc Wc ->
      let p := parent c in
      let Lc' := fst (game Lc cand p) in
      let cand' := snd (game Lc cand p) in
      let Wc' := fun q => if (q =? p)%nat then cand' else Wc q in
      length Lc' = k /\ Wc' p = cand' /\ (0 <= cand' -> ph hd' cand' <> None) /\
      (forall i, (i < k)%nat -> Wc' (k + i)%nat = lv hd' i) /\ Wc' (2 * k)%nat = -1 /\
      node_ok Lc' Wc' p /\
      (forall q, (q < k)%nat -> ~ up p q -> node_ok Lc' Wc' q) /\
      (forall q, up p q -> q <> p -> loser Lc' q = loser L q) /\
      (forall q, ~ up x q -> Wc' q = W q).
    Proof.
      intros I p Lc' cand' Wc'. destruct I as [Iup Ipos Ilen Icand Ihd Ileaf Iph Idone Itodo Ioff].
      assert (Hp : (p < k)%nat) by (apply parent_lt_k; assumption).
      assert (Hpc : (p < c)%nat) by (apply parent_lt; assumption).
      assert (Hupp : up x p) by (apply up_step; assumption).
      assert (Hs : exists s, ((c = 2 * p + 1 /\ s = 2 * p + 2) \/ (c = 2 * p + 2 /\ s = 2 * p + 1))%nat).
      { destruct (child_of_parent c Ipos) as [Ec|Ec]; fold p in Ec; eexists; [left|right]; split; eauto. }
      destruct Hs as [s Hch].
      destruct (path_loser k L _ hd W SH wn eq_refl c s Ipos Iup Hch) as [Hl Hns]. fold p in Hl.
      assert (Hsp : (p < s <= 2 * k)%nat) by lia.
      assert (Hplayer : nth p Lc (-1) = Wc s).
      { change (nth p Lc (-1)) with (loser Lc p). rewrite (Itodo p (up_refl _)), Hl. symmetry. apply Ioff. exact Hns. }
      assert (Hphd : 0 <= Wc s -> ph hd' (Wc s) <> None).
      { rewrite (Ioff s Hns). intros H0.
        destruct (provenance k L _ hd W SH s ltac:(lia) H0) as [i [Hi [Ei [Hu Hh]]]].
        assert (i <> wn) by (intros ->; apply Hns; exact Hu).
        rewrite Ei. unfold ph. destruct (Z.ltb_spec (Z.of_nat i) 0); [lia|].
        rewrite Nat2Z.id. unfold hd'. rewrite Hagree by assumption. exact Hh. }
      assert (Hother : forall q, (q < k)%nat -> ~ up p q ->
                (q =? p)%nat = false /\ (2 * q + 1 =? p)%nat = false /\ (2 * q + 2 =? p)%nat = false).
      { intros q Hq Hn. repeat split; apply Nat.eqb_neq; intros E.
        - apply Hn. rewrite E. constructor.
        - apply Hn. rewrite <- (parent_child1 q), E. apply up_step; [lia|constructor].
        - apply Hn. rewrite <- (parent_child2 q), E. apply up_step; [lia|constructor]. }
      assert (Ec' : (c =? p)%nat = false) by (apply Nat.eqb_neq; lia).
      assert (Es' : (s =? p)%nat = false) by (apply Nat.eqb_neq; lia).
      assert (Epp : (p =? p)%nat = true) by apply Nat.eqb_refl.
      assert (Hnodes : forall (Lx : list Z) (cx : Z),
                 (forall q, q <> p -> loser Lx q = loser Lc q) ->
                 forall q, (q < k)%nat -> ~ up p q ->
                 node_ok Lx (fun q0 => if (q0 =? p)%nat then cx else Wc q0) q).
      { intros Lx cx HLx q Hq Hn. destruct (Hother q Hq Hn) as [E1 [E2 E3]].
        assert (Hn' : ~ up (parent c) q) by exact Hn.
        destruct (Idone q Hq Hn') as [N G]. unfold node_ok. rewrite E1, E2, E3.
        rewrite HLx by (apply Nat.eqb_neq; exact E1). split; assumption. }
      unfold Wc', Lc', cand', game. rewrite Hplayer.
      destruct ((0 <=? Wc s) && ((cand <? 0) || (cmp_heads K cmp bufs (Wc s) cand <? 0))) eqn:Econd; cbn [fst snd].
      - (* the stored player wins and moves up; the candidate is stored as the loser *)
        apply andb_true_iff in Econd. destruct Econd as [Hp0 Hc]. apply Z.leb_le in Hp0.
        assert (Hlp : loser (upd Lc p cand) p = cand) by (unfold loser; apply nth_upd_same; lia).
        split; [|split; [|split; [|split; [|split; [|split; [|split; [|split]]]]]]].
        + rewrite upd_length. exact Ilen.
        + now rewrite Epp.
        + intros _. auto.
        + intros i Hi. replace (k + i =? p)%nat with false by (symmetry; apply Nat.eqb_neq; lia). auto.
        + replace (2 * k =? p)%nat with false by (symmetry; apply Nat.eqb_neq; lia). exact Iph.
        + unfold node_ok. rewrite Epp, Hlp. split.
          { (replace (2 * p + 1 =? p)%nat with false by (symmetry; apply Nat.eqb_neq; lia));
            (replace (2 * p + 2 =? p)%nat with false by (symmetry; apply Nat.eqb_neq; lia)).
            destruct Hch as [[Ec Es]|[Ec Es]]; rewrite <- ?Ec, <- ?Es;
              first [left; split; congruence | right; split; congruence]. }
          apply orb_true_iff in Hc. destruct Hc as [Hc|Hc].
          * apply Z.ltb_lt in Hc. unfold ph at 2. destruct (Z.ltb_spec cand 0); [exact I|lia].
          * apply Z.ltb_lt in Hc. destruct (Z_lt_le_dec cand 0) as [Hn|Hn].
            { unfold ph at 2. destruct (Z.ltb_spec cand 0); [exact I|lia]. }
            destruct (ph hd' (Wc s)) as [a|] eqn:Ea; [|exfalso; now apply (Hphd Hp0)].
            destruct (ph hd' cand) as [b|] eqn:Eb; [|exfalso; now apply (Ihd Hn)].
            rewrite (cmp_heads_some bufs _ _ a b Hp0 Hn Ea Eb) in Hc. cbn. unfold AbstractProofs.rle. lia.
        + apply Hnodes. intros q Hq. unfold loser. now rewrite nth_upd_other by auto.
        + intros q Hq Hne. unfold loser. rewrite nth_upd_other by auto. apply Itodo. exact Hq.
        + intros q Hq. replace (q =? p)%nat with false; [apply Ioff; exact Hq|].
          symmetry. apply Nat.eqb_neq. intros ->. auto.
      - (* the candidate keeps winning *)
        apply andb_false_iff in Econd.
        split; [|split; [|split; [|split; [|split; [|split; [|split; [|split]]]]]]].
        + exact Ilen.
        + now rewrite Epp.
        + exact Ihd.
        + intros i Hi. replace (k + i =? p)%nat with false by (symmetry; apply Nat.eqb_neq; lia). auto.
        + replace (2 * k =? p)%nat with false by (symmetry; apply Nat.eqb_neq; lia). exact Iph.
        + unfold node_ok. rewrite Epp. change (loser Lc p) with (nth p Lc (-1)). rewrite Hplayer. split.
          { (replace (2 * p + 1 =? p)%nat with false by (symmetry; apply Nat.eqb_neq; lia));
            (replace (2 * p + 2 =? p)%nat with false by (symmetry; apply Nat.eqb_neq; lia)).
            destruct Hch as [[Ec Es]|[Ec Es]]; rewrite <- ?Ec, <- ?Es;
              first [left; split; congruence | right; split; congruence]. }
          destruct (Z_lt_le_dec (Wc s) 0) as [Hn|Hp0].
          { unfold ph at 2. destruct (Z.ltb_spec (Wc s) 0); [exact I|lia]. }
          destruct Econd as [Hc|Hc]; [apply Z.leb_gt in Hc; lia|].
          apply orb_false_iff in Hc. destruct Hc as [Hc1 Hc2]. apply Z.ltb_ge in Hc1, Hc2.
          destruct (ph hd' (Wc s)) as [a|] eqn:Ea; [|exfalso; now apply (Hphd Hp0)].
          destruct (ph hd' cand) as [b|] eqn:Eb; [|exfalso; now apply (Ihd Hc1)].
          rewrite (cmp_heads_some bufs _ _ a b Hp0 Hc1 Ea Eb) in Hc2. cbn.
          unfold AbstractProofs.rle, Model.rcmp in *. apply (cmp_ge_le K cmp cmp_opp). lia.
        + apply Hnodes. auto.
        + intros q Hq Hne. apply Itodo. exact Hq.
        + intros q Hq. replace (q =? p)%nat with false; [apply Ioff; exact Hq|].
          symmetry. apply Nat.eqb_neq. intros ->. auto.
    Qed.
    Lemma replay_walk_unfold fuel Lc cand p :
      replay_walk K cmp fuel bufs Lc cand p =
      match p, fuel with
      | O, _ => game Lc cand p
      | _, O => game Lc cand p
      | _, S f => replay_walk K cmp f bufs (fst (game Lc cand p)) (snd (game Lc cand p)) (parent p)
      end.
    Proof.
      unfold game. destruct fuel; cbn [replay_walk];
        destruct ((0 <=? nth p Lc (-1)) && ((cand <? 0) || (cmp_heads K cmp bufs (nth p Lc (-1)) cand <? 0)));
        destruct p; reflexivity.
    Qed.

    Lemma ph_agree a : a <> Z.of_nat wn -> ph hd' a = ph hd a.
    Proof.
      intros H. unfold ph. destruct (Z.ltb_spec a 0); [reflexivity|].
      unfold hd'. apply Hagree. lia.
    Qed.

    Lemma replay_walk_shape fuel : forall c cand Lc Wc,
      WI c cand Lc Wc -> (parent c <= fuel)%nat ->
      exists W', Shape k (fst (replay_walk K cmp fuel bufs Lc cand (parent c)))
                         (snd (replay_walk K cmp fuel bufs Lc cand (parent c))) hd' W'.
    Proof.
      induction fuel as [|f IH]; intros c cand Lc Wc I Hf;
        pose proof (game_step c cand Lc Wc I) as G; cbv zeta in G;
        destruct G as [G1 [G2 [G3 [G4 [G5 [G6 [G7 [G8 G9]]]]]]]];
        rewrite replay_walk_unfold.
      - assert (E : parent c = 0%nat) by lia. rewrite E in *. cbn [fst snd].
        exists (fun q : nat => if (q =? 0)%nat then snd (game Lc cand 0%nat) else Wc q). split; [exact G1|exact G4|exact G5| | |exact G2|].
        + intros q Hq. destruct (Nat.eq_dec q 0) as [->|Hne]; [apply G6|].
          apply G7; auto. intros Hu. apply up_le in Hu. lia.
        + intros q Hq. destruct (Nat.eq_dec q 0) as [->|Hne]; [apply G6|].
          apply G7; auto. intros Hu. apply up_le in Hu. lia.
        + intros i Hi. apply heads_overflow. lia.
      - destruct (parent c) as [|p'] eqn:E.
        + cbn [fst snd]. exists (fun q : nat => if (q =? 0)%nat then snd (game Lc cand 0%nat) else Wc q). split; [exact G1|exact G4|exact G5| | |exact G2|].
          * intros q Hq. destruct (Nat.eq_dec q 0) as [->|Hne]; [apply G6|].
            apply G7; auto. intros Hu. apply up_le in Hu. lia.
          * intros q Hq. destruct (Nat.eq_dec q 0) as [->|Hne]; [apply G6|].
            apply G7; auto. intros Hu. apply up_le in Hu. lia.
          * intros i Hi. apply heads_overflow. lia.
        + rewrite <- E in *. destruct I as [Iup Ipos Ilen Icand Ihd Ileaf Iph Idone Itodo Ioff].
          assert (Hpp : (0 < parent c)%nat) by lia.
          eapply (IH (parent c) _ _ (fun q : nat => if (q =? parent c)%nat then snd (game Lc cand (parent c)) else Wc q));
            [|pose proof (parent_lt _ Hpp); lia].
          split; auto.
          * now apply up_step.
          * intros q Hq Hn. destruct (Nat.eq_dec q (parent c)) as [->|Hne]; [exact G6|].
            apply G7; auto. intros Hu. apply Hn. apply up_strict; auto.
          * intros q Hu. apply G8.
            -- eapply up_trans; [|exact Hu]. apply up_step; [exact Hpp|constructor].
            -- apply up_le in Hu. pose proof (parent_lt _ Hpp). lia.
    Qed.

    Lemma wi_init :
      WI x (lv hd' wn) L (fun q => if (q =? x)%nat then lv hd' wn else W q).
    Proof.
      pose proof wn_lt' as Hwn.
      assert (Hx : forall q, (q < k)%nat -> (q =? x)%nat = false) by (intros; apply Nat.eqb_neq; unfold x; lia).
      split.
      - constructor.
      - unfold x. lia.
      - exact (sh_len _ _ _ _ _ SH).
      - now rewrite Nat.eqb_refl.
      - unfold lv. destruct (hd' wn) eqn:E; [|lia]. intros _. unfold ph.
        destruct (Z.ltb_spec (Z.of_nat wn) 0); [lia|]. rewrite Nat2Z.id. congruence.
      - intros i Hi. destruct (Nat.eq_dec i wn) as [->|Hne].
        + fold x. now rewrite Nat.eqb_refl.
        + replace (k + i =? x)%nat with false by (symmetry; apply Nat.eqb_neq; unfold x; lia).
          rewrite (sh_leaf _ _ _ _ _ SH i Hi). unfold lv, hd'. now rewrite Hagree.
      - replace (2 * k =? x)%nat with false by (symmetry; apply Nat.eqb_neq; unfold x; lia).
        exact (sh_phantom _ _ _ _ _ SH).
      - intros q Hq Hn.
        assert (Hnx : ~ up x q).
        { intros Hu. apply Hn. apply up_strict; [exact Hu|unfold x; lia]. }
        destruct (off_path_players k L _ hd W SH wn eq_refl q Hq Hnx) as [O1 O2].
        assert (E1 : (2 * q + 1 =? x)%nat = false).
        { apply Nat.eqb_neq. intros E. apply Hn. rewrite <- E, parent_child1. constructor. }
        assert (E2 : (2 * q + 2 =? x)%nat = false).
        { apply Nat.eqb_neq. intros E. apply Hn. rewrite <- E, parent_child2. constructor. }
        unfold node_ok. rewrite (Hx q Hq), E1, E2. split.
        + exact (sh_node _ _ _ _ _ SH q Hq).
        + rewrite !ph_agree by assumption. exact (sh_game _ _ _ _ _ SH q Hq).
      - reflexivity.
      - intros q Hn. replace (q =? x)%nat with false; [reflexivity|].
        symmetry. apply Nat.eqb_neq. intros ->. apply Hn. constructor.
    Qed.

    (** replayGames: from the leaf of the previous winner, whose head changed
        (or which is exhausted: candidate -1), the walk to the root restores
        the invariant for the current heads *)
    Theorem replay_walk_inv :
      TreeInv k (fst (replay_walk K cmp k bufs L (lv hd' wn) (parent x)))
                (snd (replay_walk K cmp k bufs L (lv hd' wn) (parent x))) hd'.
    Proof.
      eapply replay_walk_shape; [exact wi_init|].
      pose proof (parent_lt_k x (up_refl _)) as H. pose proof wn_lt'. unfold x in *. lia.
    Qed.
  End Replay.

  (** ** playInitialGames establishes the invariant *)
  Lemma up_child q i : up q i -> q <> i -> up q (2 * i + 1) \/ up q (2 * i + 2).
  Proof.
    intros H Hne. inversion H as [|r Hr Hu E]; [congruence|]. subst.
    destruct (child_of_parent r Hr) as [Ec|Ec]; [left|right]; rewrite <- Ec; exact Hu.
  Qed.

  Section Initial.
    Variable bufs : list buf.
    Variable leaves : list Z.
    Let k := length bufs.
    Let hd := heads bufs.
    Hypothesis Hleaves_len : length leaves = k.
    Hypothesis Hleaves : forall i, (i < k)%nat -> nth i leaves (-1) = lv hd i.

    Fixpoint Wf (d q : nat) : Z :=
      if (k <=? q)%nat then nth (q - k) leaves (-1)
      else match d with
           | O => -1
           | S d' => snd (play_game K cmp bufs (Wf d' (2 * q + 1)) (Wf d' (2 * q + 2)))
           end.

    Lemma Wf_leaf d q : (k <= q)%nat -> Wf d q = nth (q - k) leaves (-1).
    Proof. intros H. destruct d; cbn [Wf]; destruct (Nat.leb_spec k q); auto; lia. Qed.

    Lemma Wf_node d q : (q < k)%nat ->
      Wf (S d) q = snd (play_game K cmp bufs (Wf d (2 * q + 1)) (Wf d (2 * q + 2))).
    Proof. intros H. cbn [Wf]. destruct (Nat.leb_spec k q); [lia|reflexivity]. Qed.

    Lemma Wf_fuel d : forall q, ((q + 1) * 2 ^ d > k)%nat -> Wf (S d) q = Wf d q.
    Proof.
      induction d as [|d IH]; intros q Hq.
      - cbn in Hq. rewrite !Wf_leaf by lia. reflexivity.
      - destruct (Nat.lt_ge_cases q k) as [Hlt|Hge]; [|now rewrite !Wf_leaf by lia].
        rewrite (Wf_node (S d) q Hlt), (Wf_node d q Hlt).
        rewrite !IH; [reflexivity| |]; rewrite Nat.pow_succ_r' in Hq; nia.
    Qed.

    Definition W0 : nat -> Z := Wf (S k).

    Lemma pow_gt k' : (2 ^ k' > k')%nat.
    Proof. apply Nat.pow_gt_lin_r. lia. Qed.

    Lemma W0_node q : (q < k)%nat ->
      W0 q = snd (play_game K cmp bufs (W0 (2 * q + 1)) (W0 (2 * q + 2))).
    Proof.
      intros H. unfold W0. rewrite (Wf_node k q H).
      pose proof (pow_gt k). rewrite !(Wf_fuel k); [reflexivity| |]; nia.
    Qed.

    Lemma W0_fuel d q : ((q + 1) * 2 ^ d > k)%nat -> Wf d q = W0 q.
    Proof.
      intros H. unfold W0.
      (* both have enough fuel: compare through the larger *)
      assert (G : forall e, Wf (d + e) q = Wf d q).
      { induction e as [|e IHe]; [now rewrite Nat.add_0_r|].
        replace (d + S e)%nat with (S (d + e)) by lia. rewrite Wf_fuel; [exact IHe|].
        rewrite Nat.pow_add_r. pose proof (pow_gt e). nia. }
      assert (G' : forall e, Wf (S k + e) q = Wf (S k) q).
      { induction e as [|e IHe]; [now rewrite Nat.add_0_r|].
        replace (S k + S e)%nat with (S (S k + e)) by lia. rewrite Wf_fuel; [exact IHe|].
        rewrite Nat.pow_add_r. pose proof (pow_gt (S k)). pose proof (pow_gt e). nia. }
      rewrite <- (G (S k)), <- (G' d). f_equal. lia.
    Qed.

    Lemma play_initial_winner d : forall Lin q, snd (play_initial K cmp d bufs leaves Lin q) = Wf d q.
    Proof.
      induction d as [|d IH]; intros Lin q; cbn [play_initial Wf]; fold k;
        destruct (k <=? q)%nat; try reflexivity.
      pose proof (IH Lin (2 * q + 1)%nat) as H1.
      destruct (play_initial K cmp d bufs leaves Lin (2 * q + 1)) as [l1 n1]. cbn [snd] in H1.
      pose proof (IH l1 (2 * q + 2)%nat) as H2.
      destruct (play_initial K cmp d bufs leaves l1 (2 * q + 2)) as [l2 n2]. cbn [snd] in H2.
      subst. destruct (play_game K cmp bufs _ _); reflexivity.
    Qed.

    Lemma play_initial_losers d : forall Lin i, ((i + 1) * 2 ^ d > k)%nat -> length Lin = k ->
      let L' := fst (play_initial K cmp d bufs leaves Lin i) in
      length L' = k /\
      (forall q, ~ (up q i /\ (q < k)%nat) -> nth q L' (-1) = nth q Lin (-1)) /\
      (forall q, (q < k)%nat -> up q i ->
         nth q L' (-1) = fst (play_game K cmp bufs (W0 (2 * q + 1)) (W0 (2 * q + 2)))).
    Proof.
      induction d as [|d IH]; intros Lin i Hf Hlen; cbn [play_initial]; fold k.
      - cbn in Hf. destruct (Nat.leb_spec k i); [|lia]. cbn [fst].
        repeat split; auto. intros q Hq Hu. apply up_le in Hu. lia.
      - destruct (Nat.leb_spec k i) as [Hge|Hlt]; cbn [fst].
        { repeat split; auto. intros q Hq Hu. apply up_le in Hu. lia. }
        rewrite Nat.pow_succ_r' in Hf.
        pose proof (IH Lin (2 * i + 1)%nat ltac:(nia) Hlen) as I1.
        pose proof (play_initial_winner d Lin (2 * i + 1)%nat) as V1.
        destruct (play_initial K cmp d bufs leaves Lin (2 * i + 1)) as [l1 n1]. cbn [fst snd] in I1, V1.
        destruct I1 as [I1a [I1b I1c]].
        pose proof (IH l1 (2 * i + 2)%nat ltac:(nia) I1a) as I2.
        pose proof (play_initial_winner d l1 (2 * i + 2)%nat) as V2.
        destruct (play_initial K cmp d bufs leaves l1 (2 * i + 2)) as [l2 n2]. cbn [fst snd] in I2, V2.
        destruct I2 as [I2a [I2b I2c]].
        rewrite (W0_fuel d) in V1, V2 by nia. subst n1 n2.
        destruct (play_game K cmp bufs (W0 (2 * i + 1)) (W0 (2 * i + 2))) as [lo wi] eqn:Eg. cbn [fst].
        split; [rewrite upd_length; exact I2a|]. split.
        + intros q Hq.
          assert (q <> i) by (intros ->; apply Hq; split; [constructor|lia]).
          rewrite nth_upd_other by auto.
          rewrite I2b.
          * apply I1b. intros [Hu Hk]. apply Hq. split; [|exact Hk].
            rewrite <- (parent_child1 i). apply up_step; [lia|exact Hu].
          * intros [Hu Hk]. apply Hq. split; [|exact Hk].
            rewrite <- (parent_child2 i). apply up_step; [lia|exact Hu].
        + intros q Hq Hu. destruct (Nat.eq_dec q i) as [->|Hne].
          * rewrite nth_upd_same by lia. now rewrite Eg.
          * rewrite nth_upd_other by auto. destruct (up_child q i Hu Hne) as [Hc|Hc].
            -- rewrite I2b; [apply I1c; assumption|].
               intros [Hu2 _]. exact (up_siblings q i Hc Hu2).
            -- apply I2c; assumption.
    Qed.

    (* players that are not negative have a head *)
    Lemma Wf_alive d : forall q, 0 <= Wf d q -> ph hd (Wf d q) <> None.
    Proof.
      induction d as [|d IH]; intros q; cbn [Wf]; destruct (Nat.leb_spec k q) as [Hge|Hlt]; try lia.
      - intros H. destruct (Nat.lt_ge_cases (q - k) k) as [Hi|Hi].
        + rewrite Hleaves in * by assumption. unfold lv in *. destruct (hd (q - k)%nat) eqn:E; [|lia].
          unfold ph. destruct (Z.ltb_spec (Z.of_nat (q - k)) 0); [lia|]. rewrite Nat2Z.id. congruence.
        + rewrite nth_overflow in H by lia. lia.
      - intros H. destruct (Nat.lt_ge_cases (q - k) k) as [Hi|Hi].
        + rewrite Hleaves in * by assumption. unfold lv in *. destruct (hd (q - k)%nat) eqn:E; [|lia].
          unfold ph. destruct (Z.ltb_spec (Z.of_nat (q - k)) 0); [lia|]. rewrite Nat2Z.id. congruence.
        + rewrite nth_overflow in H by lia. lia.
      - unfold play_game.
        destruct (Wf d (2 * q + 1) <? 0); [apply IH|]. destruct (Wf d (2 * q + 2) <? 0); [apply IH|].
        destruct (cmp_heads K cmp bufs _ _ <? 0); apply IH.
    Qed.

    Lemma play_game_spec a b : (0 <= a -> ph hd a <> None) -> (0 <= b -> ph hd b <> None) ->
      let '(lo, wi) := play_game K cmp bufs a b in
      ((wi = a /\ lo = b) \/ (wi = b /\ lo = a)) /\ ole (ph hd wi) (ph hd lo).
    Proof.
      intros Ha Hb. unfold play_game.
      destruct (Z.ltb_spec a 0) as [Ha0|Ha0].
      { split; [now right|]. unfold ph at 2. destruct (Z.ltb_spec a 0); [exact I|lia]. }
      destruct (Z.ltb_spec b 0) as [Hb0|Hb0].
      { split; [now left|]. unfold ph at 2. destruct (Z.ltb_spec b 0); [exact I|lia]. }
      destruct (ph hd a) as [x|] eqn:Ea; [|exfalso; now apply Ha].
      destruct (ph hd b) as [y|] eqn:Eb; [|exfalso; now apply Hb].
      rewrite (cmp_heads_some bufs a b x y Ha0 Hb0 Ea Eb).
      destruct (Z.ltb_spec (rcmp x y) 0) as [Hc|Hc].
      - split; [now left|]. rewrite Ea, Eb. cbn. unfold AbstractProofs.rle. lia.
      - split; [now right|]. rewrite Ea, Eb. cbn. unfold AbstractProofs.rle, Model.rcmp in *.
        apply (cmp_ge_le K cmp cmp_opp). lia.
    Qed.

    Theorem play_initial_inv :
      let r := play_initial K cmp (S k) bufs leaves (repeat 0 k) 0 in
      TreeInv k (fst r) (snd r) hd.
    Proof.
      intros r. exists W0.
      pose proof (pow_gt (S k)) as Hp.
      destruct (play_initial_losers (S k) (repeat 0 k) 0%nat ltac:(lia) (repeat_length _ _)) as [P1 [_ P3]].
      fold r in P1, P3.
      assert (Hnode : forall p, (p < k)%nat ->
                ((W0 p = W0 (2 * p + 1)%nat /\ loser (fst r) p = W0 (2 * p + 2)%nat) \/
                 (W0 p = W0 (2 * p + 2)%nat /\ loser (fst r) p = W0 (2 * p + 1)%nat)) /\
                ole (ph hd (W0 p)) (ph hd (loser (fst r) p))).
      { intros p Hpk. unfold loser. rewrite (P3 p Hpk (up_root p)), (W0_node p Hpk).
        pose proof (play_game_spec (W0 (2 * p + 1)) (W0 (2 * p + 2)) (Wf_alive _ _) (Wf_alive _ _)) as G.
        destruct (play_game K cmp bufs (W0 (2 * p + 1)) (W0 (2 * p + 2))) as [lo wi]. cbn [fst snd].
        destruct G as [[[-> ->]|[-> ->]] G2]; auto. }
      split.
      - exact P1.
      - intros i Hi. unfold W0. rewrite Wf_leaf by lia. replace (k + i - k)%nat with i by lia. now apply Hleaves.
      - unfold W0. rewrite Wf_leaf by lia. apply nth_overflow. lia.
      - intros p Hpk. apply Hnode; assumption.
      - intros p Hpk. apply Hnode; assumption.
      - unfold r. rewrite play_initial_winner. reflexivity.
      - intros i Hi. apply heads_overflow. exact Hi.
    Qed.
  End Initial.

  (** ** runBound is the smallest head among the other readers *)
  Lemma bound_walk_spec bufs L fuel : forall p acc, (p <= fuel)%nat ->
    let r := bound_walk K cmp fuel bufs L p acc in
    ole r acc /\ forall q, up p q -> ole r (ph (heads bufs) (loser L q)).
  Proof.
    assert (Hstep : forall p acc,
      let player := nth p L (-1) in
      let b' := if 0 <=? player then
                  match head_of K bufs player with
                  | Some h => match acc with
                              | None => Some h
                              | Some b => if rcmp h b <? 0 then Some h else acc
                              end
                  | None => acc
                  end
                else acc in
      ole b' acc /\ ole b' (ph (heads bufs) (loser L p))).
    { intros p acc player b'. unfold loser. fold player. subst b'.
      destruct (Z.leb_spec 0 player) as [Hp|Hp].
      - rewrite ph_heads by assumption. destruct (head_of K bufs player) as [h|]; [|split; [apply ole_refl|exact I]].
        destruct acc as [b|]; [|split; [exact I|apply ole_refl]].
        destruct (Z.ltb_spec (rcmp h b) 0).
        + split; [|apply ole_refl]. cbn. unfold AbstractProofs.rle. lia.
        + split; [apply ole_refl|]. cbn. unfold AbstractProofs.rle, Model.rcmp in *.
          apply (cmp_ge_le K cmp cmp_opp). lia.
      - split; [apply ole_refl|]. unfold ph. destruct (Z.ltb_spec player 0); [exact I|lia]. }
    induction fuel as [|f IH]; intros p acc Hf r; subst r; cbn [bound_walk];
      destruct (Hstep p acc) as [S1 S2]; cbv zeta in S1, S2.
    - assert (p = 0%nat) by lia. subst p. split; [exact S1|].
      intros q Hq. apply up_le in Hq. assert (q = 0%nat) by lia. subst q. exact S2.
    - destruct p as [|p'].
      + split; [exact S1|]. intros q Hq. apply up_le in Hq. assert (q = 0%nat) by lia. subst q. exact S2.
      + change ((S p' - 1) / 2)%nat with (parent (S p')).
        match goal with |- context [bound_walk K cmp f bufs L _ ?b] => set (b' := b) in * end.
        destruct (IH (parent (S p')) b' ltac:(pose proof (parent_lt (S p') ltac:(lia)); lia)) as [I1 I2].
        split; [eapply ole_trans; eauto|].
        intros q Hq. destruct (Nat.eq_dec q (S p')) as [->|Hne].
        * eapply ole_trans; eauto.
        * apply I2. apply up_strict; auto.
  Qed.

  Section Bound.
    Variables (k : nat) (L : list Z) (hd : nat -> option row) (W : nat -> Z) (wn : nat).
    Hypothesis SH : Shape k L (Z.of_nat wn) hd W.
    Let x := (k + wn)%nat.

    (* every other reader is dominated by a loser stored on the winner's path *)
    Lemma path_covers i : (i < k)%nat -> i <> wn ->
      exists a, up (parent x) a /\ ole (ph hd (loser L a)) (hd i) /\ loser L a <> Z.of_nat wn.
    Proof.
      intros Hi Hne. pose proof (wn_lt k L _ hd W SH wn eq_refl) as Hwn.
      assert (P : forall q, up (k + i) q ->
                (~ up x q /\ ole (ph hd (W q)) (hd i)) \/
                (exists a, up (parent x) a /\ ole (ph hd (loser L a)) (hd i) /\ loser L a <> Z.of_nat wn)).
      { intros q Hu. induction Hu as [|q Hq Hu IH].
        - left. split.
          + intros Hx. apply (up_leaf k) in Hx; unfold x in *; lia.
          + apply (subtree_min k L _ hd W SH i Hi). constructor.
        - destruct IH as [[Hoff Hle]|IH]; [|now right].
          pose proof (up_le _ _ Hu) as Hqle.
          assert (Hpk : (parent q < k)%nat) by (unfold parent; apply Nat.div_lt_upper_bound; lia).
          destruct (up_dec x (parent q)) as [Hon|Hoff'].
          + (* the parent is on the path: q is the sibling of the path child *)
            right. exists (parent q).
            assert (Hc : up x (2 * parent q + 1) \/ up x (2 * parent q + 2)) by (apply up_child; [exact Hon|unfold x; lia]).
            assert (Hl : loser L (parent q) = W q /\ W q <> Z.of_nat wn).
            { split.
              - destruct (child_of_parent q Hq) as [Eq|Eq]; destruct Hc as [Hc|Hc]; try (rewrite <- Eq in Hc; contradiction).
                + pose proof (path_loser k L _ hd W SH wn eq_refl (2 * parent q + 2)%nat q ltac:(lia) Hc) as PL.
                  rewrite parent_child2 in PL. apply PL. right. split; [reflexivity|exact Eq].
                + pose proof (path_loser k L _ hd W SH wn eq_refl (2 * parent q + 1)%nat q ltac:(lia) Hc) as PL.
                  rewrite parent_child1 in PL. apply PL. left. split; [reflexivity|exact Eq].
              - intros E. apply Hoff. apply (winner_only_on_path k L _ hd W SH wn eq_refl); [lia|exact E]. }
            destruct Hl as [Hl Hnw]. rewrite Hl. repeat split; auto.
            apply up_strict; [exact Hon|unfold x; lia].
          + left. split; [exact Hoff'|].
            pose proof (sh_game _ _ _ _ _ SH _ Hpk) as Hg.
            destruct (child_of_parent q Hq) as [Ec|Ec];
              destruct (sh_node _ _ _ _ _ SH _ Hpk) as [[E1 E2]|[E1 E2]]; rewrite <- Ec in *.
            * now rewrite E1.
            * rewrite E2 in Hg. eapply ole_trans; eauto.
            * rewrite E2 in Hg. eapply ole_trans; eauto.
            * now rewrite E1. }
      destruct (P 0%nat (up_root _)) as [[Hoff _]|H]; [|exact H].
      exfalso. apply Hoff. apply up_root.
    Qed.
  End Bound.

  (** ** the state of mergedRowReader between two steps of its loop *)
  Notation mk := (mk K).
  Notation no_buf := (no_buf K).

  Definition absk (m : mk) : list (list row) := map remaining (k_bufs m).

  Definition is_some (o : option row) : bool := match o with Some _ => true | None => false end.

  Definition alive (hd : nat -> option row) (k : nat) : nat :=
    length (filter (fun i => is_some (hd i)) (List.seq 0 k)).

  Lemma filter_seq_ext (f g : nat -> bool) s n :
    (forall i, (s <= i < s + n)%nat -> f i = g i) -> filter f (List.seq s n) = filter g (List.seq s n).
  Proof.
    revert s. induction n as [|n IH]; intros s H; cbn; [reflexivity|].
    rewrite (H s) by lia. rewrite (IH (S s)); [reflexivity|]. intros i Hi. apply H. lia.
  Qed.

  Lemma alive_ext hd hd' k : (forall i, (i < k)%nat -> is_some (hd i) = is_some (hd' i)) -> alive hd k = alive hd' k.
  Proof. intros H. unfold alive. f_equal. apply filter_seq_ext. intros i Hi. apply H. lia. Qed.

  Lemma filter_seq_kill (f g : nat -> bool) w : forall n s,
    (s <= w < s + n)%nat -> f w = true -> g w = false -> (forall i, i <> w -> f i = g i) ->
    length (filter f (List.seq s n)) = S (length (filter g (List.seq s n))).
  Proof.
    induction n as [|n IH]; intros s Hw Hf Hg Hne; [lia|]. cbn [List.seq filter].
    destruct (Nat.eq_dec s w) as [->|Hsw].
    - rewrite Hf, Hg. cbn [length]. f_equal. f_equal. apply filter_seq_ext. intros i Hi. apply Hne. lia.
    - rewrite (Hne s Hsw). destruct (g s); cbn [length]; rewrite (IH (S s)); auto; lia.
  Qed.

  Lemma alive_kill hd hd' k w : (w < k)%nat -> hd w <> None -> hd' w = None ->
    (forall i, i <> w -> hd' i = hd i) -> alive hd k = S (alive hd' k).
  Proof.
    intros Hw H1 H2 H3. unfold alive. apply (filter_seq_kill _ _ w); try lia.
    - destruct (hd w); [reflexivity|congruence].
    - now rewrite H2.
    - intros i Hi. now rewrite H3.
  Qed.

  Lemma alive_zero hd k : alive hd k = 0%nat -> forall i, (i < k)%nat -> hd i = None.
  Proof.
    unfold alive. intros H i Hi. destruct (hd i) eqn:E; [|reflexivity]. exfalso.
    assert (In i (filter (fun i => is_some (hd i)) (List.seq 0 k))).
    { apply filter_In. split; [apply in_seq; lia|now rewrite E]. }
    destruct (filter _ _); [contradiction|discriminate].
  Qed.

  Lemma alive_pos hd k i : (i < k)%nat -> hd i <> None -> (0 < alive hd k)%nat.
  Proof.
    intros Hi H. destruct (alive hd k) eqn:E; [|lia]. exfalso. apply H. exact (alive_zero _ _ E i Hi).
  Qed.

  Record KPre (m : mk) (hd : nat -> option row) : Prop := {
    kp_tree : TreeInv (length (k_bufs m)) (k_losers m) (k_winner m) hd;
    kp_leaf : k_leaf m = Z.of_nat (length (k_bufs m)) + k_winner m;
    kp_hd : forall i, Z.of_nat i <> k_winner m -> hd i = heads (k_bufs m) i;
    kp_sorted : forall i, sorted (remaining (nth i (k_bufs m) no_buf));
    kp_dead : forall i, hd i = None -> remaining (nth i (k_bufs m) no_buf) = [];
    kp_count : k_count m = alive hd (length (k_bufs m)) }.

  Definition KInv (m : mk) (hd : nat -> option row) : Prop :=
    KPre m hd /\
    forall i, Z.of_nat i = k_winner m -> b_win (nth i (k_bufs m) no_buf) <> [] -> hd i = heads (k_bufs m) i.

  Lemma heads_win bufs i : heads bufs i = match b_win (nth i bufs no_buf) with h :: _ => Some h | [] => None end.
  Proof. unfold heads, head_of. now rewrite Nat2Z.id. Qed.

  Lemma remaining_no_buf : remaining no_buf = [].
  Proof. reflexivity. Qed.

  (* while readers are left the winner is one of them *)
  Lemma kpre_winner m hd : KPre m hd -> k_count m <> 0%nat ->
    exists wn, k_winner m = Z.of_nat wn /\ (wn < length (k_bufs m))%nat /\ hd wn <> None.
  Proof.
    intros P Hc. destruct (kp_tree _ _ P) as [W SH]. rewrite (kp_count _ _ P) in Hc.
    set (k := length (k_bufs m)) in *.
    assert (Hex : exists i, (i < k)%nat /\ hd i <> None).
    { destruct (alive hd k) eqn:E; [congruence|].
      unfold alive in E. destruct (filter _ _) as [|i l] eqn:F; [discriminate|].
      assert (Hin : In i (i :: l)) by now left. rewrite <- F in Hin. apply filter_In in Hin.
      destruct Hin as [Hi Hs]. apply in_seq in Hi. exists i. split; [lia|]. destruct (hd i); [discriminate|discriminate]. }
    destruct Hex as [i [Hi Hh]].
    pose proof (winner_minimal k _ _ hd W SH i Hi) as Hm.
    destruct (hd i) as [y|] eqn:Ei; [|congruence].
    unfold ph in Hm. destruct (Z.ltb_spec (k_winner m) 0) as [Hn|Hp]; [cbn in Hm; contradiction|].
    exists (Z.to_nat (k_winner m)). rewrite Z2Nat.id by assumption. split; [reflexivity|].
    destruct (hd (Z.to_nat (k_winner m))) eqn:Ew; [|cbn in Hm; contradiction].
    split; [|congruence].
    destruct (Nat.lt_ge_cases (Z.to_nat (k_winner m)) k) as [|Hge]; [assumption|].
    rewrite (sh_hd _ _ _ _ _ SH _ Hge) in Ew. discriminate.
  Qed.

  Lemma map_upd {A B} (f : A -> B) l i x : map f (upd l i x) = upd (map f l) i (f x).
  Proof. revert i; induction l; intros [|i]; cbn; auto. now rewrite IHl. Qed.

  Lemma absk_set_buf m i b : absk (set_buf K m i b) = upd (absk m) i (remaining b).
  Proof. unfold absk, set_buf. cbn. apply map_upd. Qed.

  Lemma nth_error_absk m i : (i < length (k_bufs m))%nat ->
    nth_error (absk m) i = Some (remaining (nth i (k_bufs m) no_buf)).
  Proof.
    intros H. unfold absk. rewrite nth_error_map.
    destruct (nth_error (k_bufs m) i) eqn:E.
    - cbn. f_equal. f_equal. symmetry. eapply nth_error_nth'; eauto.
    - apply nth_error_None in E. lia.
  Qed.

  (* the other readers' heads, as the scheduler sees them *)
  Lemma other_heads m hd wn j r' t : KPre m hd -> k_winner m = Z.of_nat wn -> j <> wn ->
    nth_error (absk m) j = Some (r' :: t) -> hd j = Some r'.
  Proof.
    intros P Hw Hj E.
    assert (Hlt : (j < length (k_bufs m))%nat).
    { assert (j < length (absk m))%nat by (apply nth_error_Some; congruence). unfold absk in H. now rewrite map_length in H. }
    rewrite nth_error_absk in E by assumption. inversion E as [E'].
    rewrite (kp_hd _ _ P j) by lia. rewrite heads_win.
    destruct (hd j) eqn:Eh.
    - rewrite (kp_hd _ _ P j) in Eh by lia. rewrite heads_win in Eh.
      unfold remaining in E'. destruct (b_win (nth j (k_bufs m) no_buf)); [discriminate|].
      cbn in E'. congruence.
    - rewrite (kp_dead _ _ P j Eh) in E'. discriminate.
  Qed.

  (* emitting a prefix of what the winner still holds *)
  Lemma emit_prefix m hd wn pre c' : KPre m hd -> k_winner m = Z.of_nat wn -> (wn < length (k_bufs m))%nat ->
    remaining (nth wn (k_bufs m) no_buf) = pre ++ remaining c' ->
    (forall r j y, In r pre -> j <> wn -> hd j = Some y -> rle r y) ->
    sched (absk m) pre (absk (set_buf K m wn c')).
  Proof.
    intros P Hw Hlt Hrem Hle. rewrite absk_set_buf.
    apply (sched_prefix K cmp cmp_opp).
    - rewrite nth_error_absk by assumption. now rewrite Hrem.
    - rewrite <- Hrem. apply (kp_sorted _ _ P).
    - intros r j r' t Hr Hj E. eapply Hle; eauto. eapply other_heads; eauto.
  Qed.

  Lemma nth_upd_bufs (bufs : list buf) i j b : (i < length bufs)%nat ->
    nth j (upd bufs i b) no_buf = if (j =? i)%nat then b else nth j bufs no_buf.
  Proof.
    intros H. destruct (Nat.eqb_spec j i) as [->|Hne]; [apply nth_upd_same; exact H|apply nth_upd_other; auto].
  Qed.

  (* replacing the winner's buffer keeps everything that does not mention its head *)
  Lemma kpre_set_buf m hd wn c' : KPre m hd -> k_winner m = Z.of_nat wn -> (wn < length (k_bufs m))%nat ->
    hd wn <> None -> sorted (remaining c') -> KPre (set_buf K m wn c') hd.
  Proof.
    intros P Hw Hlt Hal Hs. destruct P as [P1 P2 P3 P4 P5 P6].
    split; cbn [set_buf k_bufs k_losers k_winner k_leaf k_count]; rewrite ?upd_length; auto.
    - intros i Hi. rewrite (P3 i Hi), !heads_win, nth_upd_bufs by assumption.
      destruct (Nat.eqb_spec i wn); [lia|reflexivity].
    - intros i. rewrite nth_upd_bufs by assumption. destruct (i =? wn)%nat; auto.
    - intros i Hi. rewrite nth_upd_bufs by assumption. destruct (Nat.eqb_spec i wn) as [->|]; [congruence|auto].
  Qed.

  Lemma kinv_set_streak m hd s : KInv m hd -> KInv (set_streak K m s) hd.
  Proof. intros [[P1 P2 P3 P4 P5 P6] H]. split; [split|]; auto. Qed.

  Lemma winner_alive m hd wn : KPre m hd -> k_winner m = Z.of_nat wn -> hd wn <> None /\ (wn < length (k_bufs m))%nat.
  Proof.
    intros P Hw. destruct (kp_tree _ _ P) as [W SH]. rewrite Hw in SH.
    destruct (provenance _ _ _ _ _ SH 0%nat ltac:(lia)) as [i [Hi [Ei [_ Hh]]]].
    - rewrite (sh_root _ _ _ _ _ SH). lia.
    - rewrite (sh_root _ _ _ _ _ SH) in Ei. assert (i = wn) by lia. subst i. auto.
  Qed.

  Lemma ph_heads_agree m hd a : KPre m hd -> a <> k_winner m -> ph (heads (k_bufs m)) a = ph hd a.
  Proof.
    intros P H. unfold ph. destruct (Z.ltb_spec a 0); [reflexivity|].
    symmetry. apply (kp_hd _ _ P). rewrite Z2Nat.id by assumption. exact H.
  Qed.

  Lemma replay_unfold m :
    replay K cmp m =
    let r := replay_walk K cmp (length (k_bufs m)) (k_bufs m) (k_losers m) (k_winner m) (leaf_parent (k_leaf m)) in
    mkMK K (k_bufs m) (fst r) (k_count m) (snd r) (Z.of_nat (length (k_bufs m)) + snd r) (k_streak m).
  Proof. unfold replay. destruct (replay_walk _ _ _ _ _ _ _); reflexivity. Qed.

  (* replayGames after the winner's head changed *)
  Lemma replay_alive m hd wn : KPre m hd -> k_winner m = Z.of_nat wn ->
    b_win (nth wn (k_bufs m) no_buf) <> [] -> KInv (replay K cmp m) (heads (k_bufs m)).
  Proof.
    intros P Hw Hwin. destruct (winner_alive _ _ _ P Hw) as [Hal Hlt].
    destruct (kp_tree _ _ P) as [W SH]. rewrite Hw in SH.
    set (k := length (k_bufs m)) in *.
    assert (Hagree : forall i, i <> wn -> heads (k_bufs m) i = hd i).
    { intros i Hi. symmetry. apply (kp_hd _ _ P). lia. }
    assert (Hlv : lv (heads (k_bufs m)) wn = k_winner m).
    { unfold lv. rewrite heads_win. destruct (b_win (nth wn (k_bufs m) no_buf)); [congruence|auto]. }
    pose proof (replay_walk_inv k _ hd W wn SH (k_bufs m) eq_refl Hagree) as T.
    rewrite Hlv in T.
    assert (Hleaf : leaf_parent (k_leaf m) = parent (k + wn)).
    { rewrite (kp_leaf _ _ P), Hw. fold k. rewrite <- Nat2Z.inj_add. apply leaf_parent_eq. lia. }
    rewrite replay_unfold, Hleaf. fold k. cbv zeta.
    split; [split|]; cbn [k_bufs k_losers k_winner k_leaf k_count]; fold k; auto.
    - intros i. apply (kp_sorted _ _ P).
    - intros i Hn. apply (kp_dead _ _ P).
      destruct (Nat.eq_dec i wn) as [->|Hne]; [|now rewrite <- Hagree].
      exfalso. rewrite heads_win in Hn. destruct (b_win (nth wn (k_bufs m) no_buf)); [congruence|discriminate].
    - rewrite (kp_count _ _ P). apply alive_ext. intros i Hi.
      destruct (Nat.eq_dec i wn) as [->|Hne]; [|now rewrite Hagree].
      destruct (hd wn); [|congruence]. rewrite heads_win.
      destruct (b_win (nth wn (k_bufs m) no_buf)); [congruence|reflexivity].
  Qed.

  (* replayGames after the winner was exhausted *)
  Lemma replay_dead m hd wn : KPre m hd -> k_winner m = Z.of_nat wn ->
    remaining (nth wn (k_bufs m) no_buf) = [] ->
    KInv (replay K cmp (mkMK K (k_bufs m) (k_losers m) (k_count m - 1) (-1) (k_leaf m) (k_streak m)))
         (heads (k_bufs m)).
  Proof.
    intros P Hw Hrem. destruct (winner_alive _ _ _ P Hw) as [Hal Hlt].
    destruct (kp_tree _ _ P) as [W SH]. rewrite Hw in SH.
    set (k := length (k_bufs m)) in *.
    assert (Hagree : forall i, i <> wn -> heads (k_bufs m) i = hd i).
    { intros i Hi. symmetry. apply (kp_hd _ _ P). lia. }
    assert (Hnone : heads (k_bufs m) wn = None).
    { rewrite heads_win. unfold remaining in Hrem. destruct (b_win (nth wn (k_bufs m) no_buf)); [reflexivity|discriminate]. }
    assert (Hlv : lv (heads (k_bufs m)) wn = -1) by (unfold lv; now rewrite Hnone).
    pose proof (replay_walk_inv k _ hd W wn SH (k_bufs m) eq_refl Hagree) as T.
    rewrite Hlv in T.
    assert (Hleaf : leaf_parent (k_leaf m) = parent (k + wn)).
    { rewrite (kp_leaf _ _ P), Hw. fold k. rewrite <- Nat2Z.inj_add. apply leaf_parent_eq. lia. }
    rewrite replay_unfold. cbn [k_bufs k_losers k_winner k_leaf k_count k_streak]. rewrite Hleaf. fold k. cbv zeta.
    split; [split|]; cbn [k_bufs k_losers k_winner k_leaf k_count]; fold k; auto.
    - intros i. apply (kp_sorted _ _ P).
    - intros i Hn. destruct (Nat.eq_dec i wn) as [->|Hne]; [exact Hrem|].
      apply (kp_dead _ _ P). now rewrite <- Hagree.
    - rewrite (kp_count _ _ P). fold k. rewrite (alive_kill hd (heads (k_bufs m)) k wn); auto. lia.
  Qed.

  (* runBound *)
  Lemma run_bound_spec m hd wn : KPre m hd -> k_winner m = Z.of_nat wn ->
    forall j y, j <> wn -> hd j = Some y -> ole (run_bound K cmp m) (Some y).
  Proof.
    intros P Hw j y Hj Hy. destruct (winner_alive _ _ _ P Hw) as [Hal Hlt].
    destruct (kp_tree _ _ P) as [W SH]. rewrite Hw in SH.
    set (k := length (k_bufs m)) in *.
    assert (Hjk : (j < k)%nat).
    { destruct (Nat.lt_ge_cases j k) as [|Hge]; [assumption|]. rewrite (sh_hd _ _ _ _ _ SH _ Hge) in Hy. discriminate. }
    destruct (path_covers k _ hd W wn SH j Hjk Hj) as [a [Ha [Hle Hne]]].
    assert (Hleaf : leaf_parent (k_leaf m) = parent (k + wn)).
    { rewrite (kp_leaf _ _ P), Hw. fold k. rewrite <- Nat2Z.inj_add. apply leaf_parent_eq. lia. }
    unfold run_bound. rewrite Hleaf. fold k.
    assert (Hpk : (parent (k + wn) <= k)%nat).
    { unfold parent. assert ((k + wn - 1) / 2 < k)%nat by (apply Nat.div_lt_upper_bound; lia). lia. }
    destruct (bound_walk_spec (k_bufs m) (k_losers m) k (parent (k + wn)) None Hpk) as [_ B].
    eapply ole_trans; [apply (B a Ha)|].
    rewrite (ph_heads_agree m hd) by (auto; congruence). now rewrite <- Hy.
  Qed.

  Lemma has_next_false (b : buf) : has_next b = false -> b_win b = [].
  Proof. unfold has_next. destruct (b_win b); [reflexivity|discriminate]. Qed.

  Lemma has_next_true' (b : buf) : has_next b = true -> b_win b <> [].
  Proof. unfold has_next. destruct (b_win b); [discriminate|discriminate]. Qed.

  (* the inner loop of run mode *)
  Lemma run_loop_spec fuel : forall room (c : buf) bound em c'' ret,
    run_loop K cmp fuel room c bound = (em, c'', ret) -> sorted (remaining c) -> b_win c <> [] ->
    remaining c = em ++ remaining c'' /\
    (forall r b, In r em -> bound = Some b -> rle r b) /\
    (ret = true -> b_win c'' = []) /\ (ret = false -> b_win c'' <> []) /\
    sorted (remaining c'').
  Proof.
    induction fuel as [|f IH]; intros room c bound em c'' ret H Hs Hw; cbn [run_loop] in H.
    { inversion H; subst. repeat split; auto; try discriminate; contradiction. }
    destruct (Nat.eqb_spec room 0).
    { inversion H; subst. repeat split; auto; try discriminate; contradiction. }
    set (window := firstn room (b_win c)) in *.
    set (run := match bound with None => length window | Some b => run_length cmp window b 0 end) in *.
    assert (Hsw : sorted window).
    { unfold window. apply sorted_firstn. unfold remaining in Hs. now apply sorted_app_inv in Hs. }
    assert (Hrun : (run <= length window)%nat).
    { unfold run. destruct bound; [apply run_length_le; auto|lia]. }
    assert (Hlw : (length window <= room)%nat) by (unfold window; rewrite firstn_length; lia).
    assert (Hf : firstn run window = firstn run (b_win c)).
    { unfold window. rewrite firstn_firstn. f_equal. lia. }
    assert (Hrem : remaining c = firstn run window ++ remaining (advance c run)).
    { rewrite Hf. apply remaining_advance. }
    assert (Hs' : sorted (remaining (advance c run))).
    { rewrite Hrem in Hs. now apply sorted_app_inv in Hs. }
    assert (Hq : forall r b, In r (firstn run window) -> bound = Some b -> rle r b).
    { intros r b Hr ->. unfold run in Hr.
      apply (run_length_prefix_qual K cmp cmp_opp cmp_trans window b 0 ltac:(auto) Hsw r Hr). }
    destruct (has_next (advance c run)) eqn:Hn; cbn [negb] in H.
    - destruct (Nat.ltb_spec run (length window)).
      + inversion H; subst. repeat split; auto; try discriminate. intros _. now apply has_next_true'.
      + destruct (run_loop K cmp f (room - run) (advance c run) bound) as [[em2 cx] rx] eqn:El.
        inversion H; subst. destruct (IH _ _ _ _ _ _ El Hs' (has_next_true' _ Hn)) as [I1 [I2 [I3 [I4 I5]]]].
        repeat split; auto.
        * rewrite Hrem, I1. now rewrite app_assoc.
        * intros r b Hr Hb. apply in_app_or in Hr. destruct Hr; eauto.
    - inversion H; subst. repeat split; auto; try discriminate. intros _. now apply has_next_false.
  Qed.

  Lemma kinv_eof m hd : KPre m hd -> k_count m = 0%nat -> all_empty K (absk m).
  Proof.
    intros P Hc. rewrite (kp_count _ _ P) in Hc. unfold all_empty, absk.
    apply Forall_forall. intros l Hl. apply in_map_iff in Hl. destruct Hl as [b [<- Hb]].
    apply In_nth with (d := no_buf) in Hb. destruct Hb as [i [Hi <-]].
    apply (kp_dead _ _ P). exact (alive_zero _ _ Hc i Hi).
  Qed.

  Lemma absk_same_bufs m m' : k_bufs m' = k_bufs m -> absk m' = absk m.
  Proof. unfold absk. now intros ->. Qed.

  Lemma replay_bufs m : k_bufs (replay K cmp m) = k_bufs m.
  Proof. rewrite replay_unfold. reflexivity. Qed.

  Lemma absk_set_same m i b : (i < length (k_bufs m))%nat ->
    remaining b = remaining (nth i (k_bufs m) no_buf) -> absk (set_buf K m i b) = absk m.
  Proof.
    intros Hi E. rewrite absk_set_buf, E. apply upd_id. now apply nth_error_absk.
  Qed.

  (** ** the loop of ReadRows refines the scheduler *)
  Lemma loopk_refines fuel : forall room (m : mk) hd out eof m',
    KInv m hd -> loopk K cmp fuel room m = (out, eof, m') ->
    sched (absk m) out (absk m') /\ (exists hd', KInv m' hd') /\ (eof = true -> all_empty K (absk m')).
  Proof.
    induction fuel as [|f IH]; intros room m hd out eof m' I H; cbn [loopk] in H.
    { inversion H; subst. split; [constructor|]. split; [eauto|discriminate]. }
    destruct ((room =? 0)%nat || (k_count m =? 0)%nat) eqn:Estop.
    { inversion H; subst. split; [constructor|]. split; [eauto|].
      intros Hc. apply Nat.eqb_eq in Hc. destruct I as [P _]. eapply kinv_eof; eauto. }
    apply orb_false_iff in Estop. destruct Estop as [Hroom Hcount].
    apply Nat.eqb_neq in Hroom, Hcount.
    destruct I as [P Ihdw].
    destruct (kpre_winner _ _ P Hcount) as [wn [Hw [Hlt Hal]]].
    rewrite Hw, Nat2Z.id in H.
    set (c := nth wn (k_bufs m) no_buf) in *.
    pose proof (kp_sorted _ _ P wn) as Hsc. fold c in Hsc.
    destruct (b_win c) as [|h t] eqn:Ewin.
    - (* the winner's buffer is exhausted: repopulate it *)
      destruct (buf_read c) as [c'|] eqn:Er.
      + destruct (buf_read_some K c c' Er Ewin) as [Hrem Hne].
        set (m1 := set_buf K m wn c') in *.
        assert (P1 : KPre m1 hd) by (apply kpre_set_buf; auto; rewrite Hrem; exact Hsc).
        assert (Hw1 : k_winner m1 = Z.of_nat wn) by exact Hw.
        assert (Hc1 : nth wn (k_bufs m1) no_buf = c') by (unfold m1; cbn; apply nth_upd_same; exact Hlt).
        pose proof (replay_alive m1 hd wn P1 Hw1 ltac:(rewrite Hc1; exact Hne)) as I2.
        assert (Habs : absk (replay K cmp m1) = absk m).
        { rewrite (absk_same_bufs m1 (replay K cmp m1)) by apply replay_bufs. apply absk_set_same; auto. }
        match type of H with loopk K cmp f room ?mm = _ =>
          assert (I3 : KInv mm (heads (k_bufs m1))) by (destruct (_ =? _); [exact I2|apply kinv_set_streak; exact I2]);
          assert (Habs' : absk mm = absk m) by (destruct (_ =? _); [exact Habs|exact Habs]);
          destruct (IH _ _ _ _ _ _ I3 H) as [R1 R2]; rewrite Habs' in R1; auto
        end.
      + pose proof (buf_read_none K c Er) as Hsrc.
        assert (Hrem : remaining c = []) by (unfold remaining; now rewrite Ewin, Hsrc).
        pose proof (replay_dead m hd wn P Hw Hrem) as I2.
        match type of H with loopk K cmp f room ?mm = _ =>
          assert (I3 : KInv mm (heads (k_bufs m))) by (destruct (_ =? _); [exact I2|apply kinv_set_streak; exact I2]);
          assert (Habs' : absk mm = absk m) by (destruct (_ =? _); apply absk_same_bufs; cbn [set_streak k_bufs]; rewrite replay_bufs; reflexivity);
          destruct (IH _ _ _ _ _ _ I3 H) as [R1 R2]; rewrite Habs' in R1; auto
        end.
    - (* emit the winner's head *)
      assert (Hhd : hd wn = Some h).
      { rewrite (Ihdw wn) by (auto; fold c; rewrite Ewin; discriminate). rewrite heads_win. fold c. now rewrite Ewin. }
      destruct (kp_tree _ _ P) as [W SH].
      set (c1 := advance c 1) in *. set (m1 := set_buf K m wn c1) in *.
      assert (Hrem1 : remaining c = [h] ++ remaining c1) by (apply (emit_one_spec K c h t Ewin)).
      assert (Hs1 : sorted (remaining c1)) by (rewrite Hrem1 in Hsc; now apply sorted_app_inv in Hsc).
      assert (Hstep1 : sched (absk m) [h] (absk m1)).
      { apply (emit_prefix m hd wn [h] c1 P Hw Hlt Hrem1).
        intros r j y [<-|[]] Hj Hy.
        assert (Hjk : (j < length (k_bufs m))%nat).
        { destruct (Nat.lt_ge_cases j (length (k_bufs m))) as [|Hge]; [assumption|].
          rewrite (sh_hd _ _ _ _ _ SH _ Hge) in Hy. discriminate. }
        pose proof (winner_minimal _ _ _ hd W SH j Hjk) as Hm.
        rewrite Hw in Hm. unfold ph in Hm. destruct (Z.ltb_spec (Z.of_nat wn) 0); [lia|].
        rewrite Nat2Z.id, Hhd, Hy in Hm. exact Hm. }
      assert (P1 : KPre m1 hd) by (apply kpre_set_buf; auto).
      assert (Hw1 : k_winner m1 = Z.of_nat wn) by exact Hw.
      assert (Hlt1 : (wn < length (k_bufs m1))%nat) by (unfold m1; cbn; now rewrite upd_length).
      assert (Hc1 : nth wn (k_bufs m1) no_buf = c1) by (unfold m1; cbn; apply nth_upd_same; exact Hlt).
      destruct (has_next c1) eqn:Hn1; cbn [negb] in H.
      2:{ (* the buffer is exhausted: return *)
        injection H as <- <- <-. split; [exact Hstep1|]. split; [|discriminate].
        exists hd. split; [exact P1|]. intros i Hi Hwin. exfalso. apply Hwin.
        assert (i = wn) by (rewrite Hw1 in Hi; lia). subst i. rewrite Hc1. now apply has_next_false. }
      pose proof (has_next_true' _ Hn1) as Hne1.
      destruct (k_streak m >=? run_streak).
      + (* run mode *)
        destruct (run_loop K cmp (S room) (room - 1) c1 (run_bound K cmp m1)) as [[em c2] ret] eqn:El.
        destruct (run_loop_spec _ _ _ _ _ _ _ El Hs1 Hne1) as [L1 [L2 [L3 [L4 L5]]]].
        set (m2 := set_buf K m1 wn c2) in *.
        assert (Hstep2 : sched (absk m1) em (absk m2)).
        { apply (emit_prefix m1 hd wn em c2 P1 Hw1 Hlt1); [rewrite Hc1; exact L1|].
          intros r j y Hr Hj Hy.
          pose proof (run_bound_spec m1 hd wn P1 Hw1 j y Hj Hy) as Hb.
          destruct (run_bound K cmp m1) as [b|] eqn:Eb; [|cbn in Hb; contradiction].
          cbn in Hb. apply (rle_trans K cmp cmp_trans) with b; [eapply L2; eauto|exact Hb]. }
        assert (P2 : KPre m2 hd) by (apply kpre_set_buf; auto).
        assert (Hc2 : nth wn (k_bufs m2) no_buf = c2) by (unfold m2; cbn; apply nth_upd_same; exact Hlt1).
        assert (Hw2 : k_winner m2 = Z.of_nat wn) by exact Hw.
        destruct ret.
        * injection H as <- <- <-. split; [change (h :: em) with ([h] ++ em); eapply sched_app; eauto|].
          split; [|discriminate]. exists hd. split; [exact P2|]. intros i Hi Hwin. exfalso. apply Hwin.
          assert (i = wn) by (rewrite Hw2 in Hi; lia). subst i. rewrite Hc2. now apply L3.
        * destruct (loopk K cmp f (room - 1 - length em) (replay K cmp (set_streak K m2 0))) as [[o e] mf] eqn:Elk.
          injection H as <- <- <-.
          assert (P2' : KPre (set_streak K m2 0) hd) by (destruct P2; split; auto).
          pose proof (replay_alive (set_streak K m2 0) hd wn P2' Hw2 ltac:(cbn [set_streak k_bufs]; rewrite Hc2; now apply L4)) as I3.
          destruct (IH _ _ _ _ _ _ I3 Elk) as [R1 R2].
          rewrite (absk_same_bufs m2 (replay K cmp (set_streak K m2 0))) in R1 by (rewrite replay_bufs; reflexivity).
          split; [|exact R2]. change (h :: em ++ o) with ([h] ++ em ++ o).
          eapply sched_app; [exact Hstep1|]. eapply sched_app; eauto.
      + (* one game replay per row *)
        match type of H with context [loopk K cmp f (room - 1) ?mm] =>
          destruct (loopk K cmp f (room - 1) mm) as [[o e] mf] eqn:Elk;
          assert (I3 : KInv mm (heads (k_bufs m1)))
            by (apply kinv_set_streak; apply (replay_alive m1 hd wn P1 Hw1); rewrite Hc1; exact Hne1);
          assert (Habs' : absk mm = absk m1)
            by (apply absk_same_bufs; cbn [set_streak k_bufs]; apply replay_bufs)
        end.
        injection H as <- <- <-. destruct (IH _ _ _ _ _ _ I3 Elk) as [R1 R2]. rewrite Habs' in R1.
        split; [|exact R2]. change (h :: o) with ([h] ++ o). eapply sched_app; eauto.
  Qed.

  (** ** initialize() *)
  Definition win_some (b : buf) : bool := match b_win b with [] => false | _ => true end.

  Lemma alive_heads_cons (b : buf) bs :
    alive (heads (b :: bs)) (S (length bs)) = ((if win_some b then 1 else 0) + alive (heads bs) (length bs))%nat.
  Proof.
    unfold alive. cbn [List.seq filter]. rewrite <- seq_shift.
    assert (E : filter (fun i => is_some (heads (b :: bs) i)) (map S (List.seq 0 (length bs)))
                = map S (filter (fun i => is_some (heads bs i)) (List.seq 0 (length bs)))).
    { induction (List.seq 0 (length bs)) as [|x l IH]; cbn [map filter]; [reflexivity|].
      rewrite IH. rewrite !heads_win. cbn [nth]. destruct (b_win (nth x bs no_buf)); reflexivity. }
    rewrite E. rewrite heads_win. cbn [nth]. unfold win_some.
    destruct (b_win b); cbn [is_some length]; rewrite map_length; reflexivity.
  Qed.

  Lemma init_reads_spec : forall (bufs : list buf) i bs leaves cnt,
    init_reads K bufs i = (bs, leaves, cnt) -> (forall b, In b bufs -> b_win b = []) ->
    length bs = length bufs /\ length leaves = length bufs /\ map remaining bs = map remaining bufs /\
    (forall j, (j < length bufs)%nat ->
       nth j leaves (-1) = if win_some (nth j bs no_buf) then Z.of_nat (i + j) else -1) /\
    (forall j, win_some (nth j bs no_buf) = false -> remaining (nth j bs no_buf) = []) /\
    cnt = alive (heads bs) (length bs).
  Proof.
    induction bufs as [|b bufs IH]; intros i bs leaves cnt H Hw; cbn [init_reads] in H.
    - inversion H; subst. repeat split; auto; try (intros; cbn in *; lia).
      intros j _. destruct j; reflexivity.
    - destruct (init_reads K bufs (S i)) as [[bs' ls'] cnt'] eqn:E.
      destruct (IH _ _ _ _ E ltac:(intros; apply Hw; now right)) as [I1 [I2 [I3 [I4 [I5 I6]]]]].
      assert (Hb : b_win b = []) by (apply Hw; now left).
      destruct (buf_read b) as [b'|] eqn:Er; injection H as <- <- <-.
      + destruct (buf_read_some K b b' Er Hb) as [R1 R2].
        assert (Hs : win_some b' = true) by (unfold win_some; destruct (b_win b'); congruence).
        repeat split; cbn [length map]; auto.
        * now rewrite R1, I3.
        * intros [|j] Hj; cbn [nth].
          -- rewrite Hs. f_equal. lia.
          -- rewrite I4 by lia. replace (S i + j)%nat with (i + S j)%nat by lia. reflexivity.
        * intros [|j]; cbn [nth]; [congruence|apply I5].
        * rewrite alive_heads_cons, Hs. cbn. now rewrite <- I6.
      + pose proof (buf_read_none K b Er) as Hsrc.
        assert (Hs : win_some b = false) by (unfold win_some; now rewrite Hb).
        repeat split; cbn [length map]; auto.
        * now rewrite I3.
        * intros [|j] Hj; cbn [nth].
          -- now rewrite Hs.
          -- rewrite I4 by lia. replace (S i + j)%nat with (i + S j)%nat by lia. reflexivity.
        * intros [|j]; cbn [nth]; [intros _; unfold remaining; now rewrite Hb, Hsrc|apply I5].
        * rewrite alive_heads_cons, Hs. cbn. exact I6.
  Qed.

  Definition KTop (m : mk) : Prop :=
    (k_count m = 0%nat /\ all_empty K (absk m)) \/ exists hd, KInv m hd.

  Lemma mk_init_inv (bufs : list buf) :
    (forall b, In b bufs -> b_win b = []) -> (forall b, In b bufs -> sorted (remaining b)) ->
    KTop (mk_init K cmp bufs) /\ absk (mk_init K cmp bufs) = map remaining bufs.
  Proof.
    intros Hw Hs. unfold mk_init.
    destruct (init_reads K bufs 0) as [[bs leaves] cnt] eqn:E.
    destruct (init_reads_spec _ _ _ _ _ E Hw) as [I1 [I2 [I3 [I4 [I5 I6]]]]].
    assert (Hsorted : forall i, sorted (remaining (nth i bs no_buf))).
    { intros i. destruct (Nat.lt_ge_cases i (length bs)) as [Hi|Hi].
      - assert (Hn : nth i (map remaining bs) [] = remaining (nth i bs no_buf)).
        { rewrite <- remaining_no_buf. apply map_nth. }
        rewrite <- Hn, I3. rewrite <- remaining_no_buf, map_nth. apply Hs. apply nth_In. lia.
      - rewrite nth_overflow by exact Hi. constructor. }
    assert (Hdead : forall i, heads bs i = None -> remaining (nth i bs no_buf) = []).
    { intros i Hn. apply I5. rewrite heads_win in Hn. unfold win_some. destruct (b_win (nth i bs no_buf)); [reflexivity|discriminate]. }
    destruct cnt as [|cnt'].
    - split; [|exact I3]. left. split; [reflexivity|]. unfold absk. cbn [k_bufs].
      apply Forall_forall. intros l Hl. apply in_map_iff in Hl. destruct Hl as [b [<- Hb]].
      apply In_nth with (d := no_buf) in Hb. destruct Hb as [i [Hi <-]].
      apply Hdead. symmetry in I6. exact (alive_zero _ _ I6 i Hi).
    - destruct (play_initial K cmp (S (length bufs)) bs leaves (repeat 0 (length bufs)) 0) as [losers w] eqn:Ep.
      split; [|exact I3]. right. exists (heads bs).
      assert (T : TreeInv (length bs) losers w (heads bs)).
      { assert (Hl : forall i, (i < length bs)%nat -> nth i leaves (-1) = lv (heads bs) i).
        { intros i Hi. rewrite I4 by lia. unfold lv. rewrite heads_win. unfold win_some.
          destruct (b_win (nth i bs no_buf)); reflexivity. }
        pose proof (play_initial_inv bs leaves ltac:(lia) Hl) as T. cbv zeta in T.
        rewrite I1, Ep in T. cbn [fst snd] in T. rewrite I1. exact T. }
      split; [split|]; cbn [k_bufs k_losers k_winner k_leaf k_count]; auto.
      now rewrite I1.
  Qed.

  Lemma read_rowsk_refines m n out eof m' : KTop m -> read_rowsk K cmp m n = (out, eof, m') ->
    sched (absk m) out (absk m') /\ KTop m' /\ (eof = true -> all_empty K (absk m')).
  Proof.
    unfold read_rowsk. intros [[Hc He]|[hd I]] H.
    - replace (2 * n + 2)%nat with (S (2 * n + 1)) in H by lia. cbn [loopk] in H.
      rewrite Hc, Nat.eqb_refl, orb_true_r in H. inversion H; subst.
      split; [constructor|]. split; [left; auto|auto].
    - destruct (loopk_refines _ _ _ _ _ _ _ I H) as [R1 [R2 R3]]. split; [exact R1|]. split; [right; exact R2|exact R3].
  Qed.

  Lemma runk_refines batches : forall m outs eof m', KTop m -> runk K cmp m batches = (outs, eof, m') ->
    sched (absk m) (concat outs) (absk m') /\ (eof = true -> all_empty K (absk m')).
  Proof.
    induction batches as [|n t IH]; intros m outs eof m' I H; cbn [runk] in H.
    - inversion H; subst. split; [constructor|discriminate].
    - destruct (read_rowsk K cmp m n) as [[out e] m1] eqn:Er.
      destruct (read_rowsk_refines _ _ _ _ _ I Er) as [R1 [R2 R3]].
      destruct e.
      + inversion H; subst. split; [|auto]. destruct out; cbn; [exact R1|rewrite app_nil_r; exact R1].
      + destruct (runk K cmp m1 t) as [[outs' e'] m2] eqn:Et. inversion H; subst.
        destruct (IH _ _ _ _ R2 Et) as [J1 J2]. split; [|exact J2]. cbn [concat]. eapply sched_app; eauto.
  Qed.

  Lemma sources_spec (ins : list (list row)) : forall chunks,
    (forall b, In b (sources ins chunks) -> b_win b = []) /\
    map remaining (sources ins chunks) = ins.
  Proof.
    induction ins as [|r ins IH]; intros chunks; cbn [sources]; [split; [contradiction|reflexivity]|].
    destruct (IH (tl chunks)) as [I1 I2]. split.
    - intros b [<-|Hb]; [reflexivity|auto].
    - cbn [map]. now rewrite I2.
  Qed.

  (** for every chunking of the sources and every sequence of slice lengths
      the rows emitted so far are a run of the scheduler; nothing is left when
      io.EOF is reported *)
  Theorem mergek_refines ins chunks batches outs eof m' :
    Forall sorted ins -> mergek cmp ins chunks batches = (outs, eof, m') ->
    sched ins (concat outs) (absk m') /\ (eof = true -> all_empty K (absk m')).
  Proof.
    intros Hs H. unfold mergek in H. destruct (sources_spec ins chunks) as [S1 S2].
    destruct (mk_init_inv (sources ins chunks) S1) as [I A].
    - intros b Hb. rewrite Forall_forall in Hs. apply Hs. rewrite <- S2. now apply in_map.
    - destruct (runk_refines _ _ _ _ _ I H) as [R1 R2]. rewrite A, S2 in R1. auto.
  Qed.

  Theorem mergek_correct ins chunks batches outs m' :
    Forall sorted ins -> tagged K ins -> mergek cmp ins chunks batches = (outs, true, m') ->
    sorted (concat outs) /\ Permutation (concat ins) (concat outs) /\
    forall i, of_input K i (concat outs) = nth i ins [].
  Proof.
    intros Hs Ht H. destruct (mergek_refines _ _ _ _ _ _ Hs H) as [R1 R2].
    exact (sched_complete_correct K cmp cmp_opp cmp_trans _ _ _ R1 (R2 eq_refl) Hs Ht).
  Qed.
End Tree.
