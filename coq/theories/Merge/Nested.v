(** Model of the plan of MergeRowGroups (merge.go) when an input is itself a
    row group whose rows are computed: the output of an earlier MergeRowGroups
    (mergedRowGroup, sortedSegmentRowGroup), a deduplicated row group
    (dedupRowGroup) or a MultiRowGroup.  The ColumnChunks() of such a row group
    are the column chunks of its own inputs one after the other, its Rows()
    are merged / deduplicated / concatenated from theirs: the first and last
    pages of the column chunks do not bound the first and last rows.

    merge.go rowsFollowColumnChunks / rowGroupRangeOfSortedColumns: the bounds
    of such an input are reported unavailable, so overlappingRowGroups yields a
    single segment holding every input (the empty ones included) in argument
    order, without bounds; newRefineTargets returns nil for it and the segment
    is merged whole.

    The tree before commit 4f9d711 ([pinned = true]) read the bounds off the
    pages of the concatenated column chunks.

    Executable; no proofs here (Merge/NestedProofs.v). *)
From Coq Require Import List ZArith Bool Arith.
From PQ Require Import Merge.Model Merge.Instance Merge.Refine.
Import ListNotations.

(* some non-empty input has computed rows (overlappingRowGroups skips the empty row groups
   before it asks for bounds) *)
Definition some_computed {A : Type} (ins : list (list A)) (computed : list bool) : bool :=
  existsb (fun p => snd p && match fst p with [] => false | _ => true end) (combine ins computed).

(** ** the plan, as the elements of rowGroupSegments (parts (input, offset, rows)), of
    MergeRowGroups without DropDuplicatedRows: [c09_refine] when the rows of every non-empty
    input are those of its column chunks, otherwise one element holding every non-empty input
    whole. *)
Definition c09_refine_nested (cfg : list colcfg) (ins : list (list keyL))
           (layouts : list (list (list nat))) (cuts : list bool) (computed : list bool)
  : list (list (nat * nat * nat)) :=
  if some_computed ins computed then
    let whole := fun i => (i, 0%nat, length (nth i ins [])) in
    let pc := filter (fun x : nat * nat * nat => negb (snd x =? 0)%nat) (map whole (List.seq 0 (length ins))) in
    match pc with [] => [] | _ => [pc] end
  else c09_refine cfg ins layouts cuts.

(** ** the unrefined plan with the column chunks of the computed inputs made explicit

    An input is its rows and, when they are computed, the rows of the column chunks its
    ColumnChunks() concatenates (one page per chunk, as for in-memory buffers). *)
Definition ninput := (list keyL * option (list (list keyL)))%type.
Definition n_rows (x : ninput) : list keyL := fst x.
Definition n_computed (x : ninput) : bool := match snd x with Some _ => true | None => false end.
Definition n_chunks (x : ninput) : list (list keyL) :=
  filter (fun ch => match ch with [] => false | _ => true end)
         (match snd x with Some chs => chs | None => [fst x] end).

Definition nested_segments (pinned : bool) (cfg : list colcfg) (xs : list ninput) : list (list nat) :=
  if negb pinned && some_computed (map n_rows xs) (map n_computed xs) then [List.seq 0 (length xs)] else
  (* the bounds are read off the first / last page of the column chunks *)
  let cols := map (fun x => concat (n_chunks x)) xs in
  let layouts := map (fun x => map (fun _ => map (@length keyL) (n_chunks x)) cfg) xs in
  match collect_ranges_l cfg 0 cols layouts with
  | None => [List.seq 0 (length xs)]
  | Some rs => map (map (@r_id keyL)) (segments (cmpL cfg) rs)
  end.

(* the rows the plan delivers: every segment merged (a segment of one row group read as it is) *)
Definition nested_rows (pinned : bool) (cfg : list colcfg) (batch : nat) (xs : list ninput) : list (row keyL) :=
  let tagged := tag_all (map n_rows xs) in
  flat_map (fun seg => merge_flat cfg batch (map (fun i => nth i tagged []) seg)) (nested_segments pinned cfg xs).

(* the rows of MergeRowGroups over in-memory buffers, as an input of a further merge *)
Definition merged_input (cfg : list colcfg) (batch : nat) (ins : list (list keyL)) : ninput :=
  (map (@key keyL) (plan_rows false cfg 0 batch false ins), Some ins).
