(** The events of refineSegment (merge_refine.go): after the stable sort every
    target has its start event before its end event, the keys do not decrease,
    and an end event placed before a start event has a strictly smaller key. *)
From Coq Require Import List ZArith Bool Arith Lia Sorting.Sorted Sorting.Permutation.
From PQ Require Import Merge.Model Merge.AbstractProofs Merge.Refine Merge.RefineCutProofs.
Import ListNotations.
Open Scope Z_scope.

Definition cnt {A} (f : A -> bool) (l : list A) : nat := length (filter f l).

Lemma cnt_app {A} (f : A -> bool) l1 l2 : cnt f (l1 ++ l2) = (cnt f l1 + cnt f l2)%nat.
Proof. unfold cnt. now rewrite filter_app, app_length. Qed.

Lemma cnt_perm {A} (f : A -> bool) l1 l2 : Permutation l1 l2 -> cnt f l1 = cnt f l2.
Proof.
  unfold cnt. induction 1 as [|x l l' _ IH|x y l|l l' l'' _ IH1 _ IH2]; cbn; try lia.
  - destruct (f x); cbn; lia.
  - destruct (f x), (f y); cbn; lia.
Qed.

Lemma cnt_zero_existsb {A} (f : A -> bool) l : cnt f l = 0%nat -> existsb f l = false.
Proof.
  unfold cnt. induction l as [|x l IH]; cbn; [reflexivity|]. destruct (f x); cbn; [lia|exact IH].
Qed.

Section Events.
  Variable K : Type.
  Variable cmp : K -> K -> Z.
  Hypothesis cmp_opp : forall a b, cmp a b < 0 <-> cmp b a > 0.
  Hypothesis cmp_trans : forall a b d, cmp a b <= 0 -> cmp b d <= 0 -> cmp a d <= 0.

  Notation event := (event K).
  Notation target := (target K).
  Notation ev_cmp := (ev_cmp K cmp).

  Lemma ev_cmp_le_iff a b :
    ev_cmp a b <= 0 <->
    cmp (e_key a) (e_key b) < 0 \/ (cmp (e_key a) (e_key b) = 0 /\ (e_start a = true \/ e_start b = false)).
  Proof.
    unfold Refine.ev_cmp. destruct (Z.eqb_spec (cmp (e_key a) (e_key b)) 0) as [E|E]; cbn [negb];
      [rewrite E|]; destruct (e_start a), (e_start b); cbn; intuition (try lia; try discriminate).
  Qed.

  Lemma ev_cmp_lt_iff a b :
    ev_cmp a b < 0 <->
    cmp (e_key a) (e_key b) < 0 \/ (cmp (e_key a) (e_key b) = 0 /\ e_start a = true /\ e_start b = false).
  Proof.
    unfold Refine.ev_cmp. destruct (Z.eqb_spec (cmp (e_key a) (e_key b)) 0) as [E|E]; cbn [negb];
      [rewrite E|]; destruct (e_start a), (e_start b); cbn; intuition (try lia; try discriminate).
  Qed.

  Lemma ev_cmp_gt_iff a b :
    ev_cmp a b > 0 <->
    cmp (e_key a) (e_key b) > 0 \/ (cmp (e_key a) (e_key b) = 0 /\ e_start a = false /\ e_start b = true).
  Proof.
    unfold Refine.ev_cmp. destruct (Z.eqb_spec (cmp (e_key a) (e_key b)) 0) as [E|E]; cbn [negb];
      [rewrite E|]; destruct (e_start a), (e_start b); cbn; intuition (try lia; try discriminate).
  Qed.

  Lemma ev_cmp_opp a b : ev_cmp a b < 0 <-> ev_cmp b a > 0.
  Proof.
    rewrite ev_cmp_lt_iff, ev_cmp_gt_iff.
    pose proof (cmp_opp (e_key a) (e_key b)) as O1. pose proof (cmp_opp (e_key b) (e_key a)) as O2.
    split; intros [H'|[E1 [E2 E3]]]; [left; lia|right; repeat split; auto; lia|left; lia|right; repeat split; auto; lia].
  Qed.

  Lemma ev_cmp_trans a b d : ev_cmp a b <= 0 -> ev_cmp b d <= 0 -> ev_cmp a d <= 0.
  Proof.
    rewrite !ev_cmp_le_iff. intros [H1|[H1 F1]] [H2|[H2 F2]].
    - left. apply (cmp_lt_le_trans K cmp cmp_opp cmp_trans) with (e_key b); [exact H1|lia].
    - left. apply (cmp_lt_le_trans K cmp cmp_opp cmp_trans) with (e_key b); [exact H1|lia].
    - left. apply (cmp_le_lt_trans K cmp cmp_opp cmp_trans) with (e_key b); [lia|exact H2].
    - right. split; [eapply (cmp_eq_trans K cmp cmp_opp cmp_trans); eauto|].
      destruct F1 as [F1|F1]; [now left|]. destruct F2 as [F2|F2]; [congruence|now right].
  Qed.

  (* an end event placed before a start event has a strictly smaller key *)
  Lemma end_before_start a b :
    ev_cmp a b <= 0 -> e_start a = false -> e_start b = true -> cmp (e_key a) (e_key b) < 0.
  Proof. rewrite ev_cmp_le_iff. intros [H|[_ [H|H]]] Ha Hb; [exact H|congruence|congruence]. Qed.

  Lemma ev_le_key a b : ev_cmp a b <= 0 -> cmp (e_key a) (e_key b) <= 0.
  Proof. rewrite ev_cmp_le_iff. intros [H|[H _]]; lia. Qed.

  (** ** the events of a list of targets *)
  Definition is_start (j : nat) (e : event) : bool := e_start e && (e_idx e =? j)%nat.
  Definition is_end (j : nat) (e : event) : bool := negb (e_start e) && (e_idx e =? j)%nat.
  Definition startedb (j : nat) (l : list event) : bool := existsb (is_start j) l.
  Definition endedb (j : nat) (l : list event) : bool := existsb (is_end j) l.

  Section Targets.
    Variable ts : list target.
    Variable dk : K.
    Notation tgt := (tgt K ts dk).
    Notation k := (length ts).

    (* the bounds of every target are ordered (they bound at least one row) *)
    Hypothesis bounds_ordered : forall j, (j < k)%nat -> cmp (t_min (tgt j)) (t_max (tgt j)) <= 0.

    Definition ev_ok (e : event) : Prop :=
      (e_idx e < k)%nat /\ e_key e = if e_start e then t_min (tgt (e_idx e)) else t_max (tgt (e_idx e)).

    Lemma events_from_spec (l : list target) : forall s e, In e (events_from K s l) ->
      (s <= e_idx e < s + length l)%nat /\
      e_key e = if e_start e then t_min (nth (e_idx e - s) l (no_target K dk))
                else t_max (nth (e_idx e - s) l (no_target K dk)).
    Proof.
      induction l as [|t l IH]; intros s e H; [contradiction|]. cbn [events_from] in H.
      destruct H as [<-|[<-|H]]; cbn [e_idx e_start e_key length].
      - rewrite Nat.sub_diag. split; [lia|reflexivity].
      - rewrite Nat.sub_diag. split; [lia|reflexivity].
      - destruct (IH _ _ H) as [I1 I2]. split; [lia|]. rewrite I2.
        replace (e_idx e - s)%nat with (S (e_idx e - S s)) by lia. reflexivity.
    Qed.

    Lemma events_from_has (l : list target) : forall s j, (j < length l)%nat ->
      In (mkEvent (t_min (nth j l (no_target K dk))) true (s + j)) (events_from K s l) /\
      In (mkEvent (t_max (nth j l (no_target K dk))) false (s + j)) (events_from K s l).
    Proof.
      induction l as [|t l IH]; intros s [|j] H; cbn [length] in H; try lia; cbn [events_from nth].
      - rewrite Nat.add_0_r. split; [now left|right; now left].
      - destruct (IH (S s) j) as [I1 I2]; [lia|]. replace (s + S j)%nat with (S s + j)%nat by lia.
        split; right; right; assumption.
    Qed.

    Lemma events_from_cnt_start (l : list target) j : forall s, (cnt (is_start j) (events_from K s l) <= 1)%nat /\
      ((j < s)%nat -> cnt (is_start j) (events_from K s l) = 0%nat).
    Proof.
      induction l as [|t l IH]; intros s; cbn [events_from]; [cbn; lia|].
      destruct (IH (S s)) as [I1 I2]. unfold cnt in *. cbn [filter is_start e_start e_idx andb].
      destruct (Nat.eqb_spec s j) as [E|E]; cbn [length].
      - rewrite I2 by lia. lia.
      - split; [lia|]. intros Hlt. apply I2. lia.
    Qed.

    Lemma events_from_cnt_end (l : list target) j : forall s, (cnt (is_end j) (events_from K s l) <= 1)%nat /\
      ((j < s)%nat -> cnt (is_end j) (events_from K s l) = 0%nat).
    Proof.
      induction l as [|t l IH]; intros s; cbn [events_from]; [cbn; lia|].
      destruct (IH (S s)) as [I1 I2]. unfold cnt in *. cbn [filter is_end e_start e_idx andb negb].
      destruct (Nat.eqb_spec s j) as [E|E]; cbn [length].
      - rewrite I2 by lia. lia.
      - split; [lia|]. intros Hlt. apply I2. lia.
    Qed.

    Definition evs : list event := sorted_events K cmp ts.

    Lemma evs_perm : Permutation (events_from K 0 ts) evs.
    Proof. apply ssort_perm. Qed.

    Lemma evs_sorted : StronglySorted (fun a b => ev_cmp a b <= 0) evs.
    Proof. apply (ssort_sorted event ev_cmp ev_cmp_opp ev_cmp_trans). Qed.

    Lemma evs_ok e : In e evs -> ev_ok e.
    Proof.
      intros H. apply (Permutation_in _ (Permutation_sym evs_perm)) in H.
      destruct (events_from_spec _ _ _ H) as [I1 I2]. split; [lia|].
      rewrite I2, Nat.sub_0_r. reflexivity.
    Qed.

    Lemma evs_all_started j : (j < k)%nat -> startedb j evs = true /\ endedb j evs = true.
    Proof.
      intros Hj. destruct (events_from_has ts 0 j Hj) as [I1 I2].
      apply (Permutation_in _ evs_perm) in I1. apply (Permutation_in _ evs_perm) in I2.
      split; apply existsb_exists; [exists (mkEvent (t_min (nth j ts (no_target K dk))) true (0 + j))
                                   |exists (mkEvent (t_max (nth j ts (no_target K dk))) false (0 + j))];
        (split; [assumption|]); unfold is_start, is_end;
        cbn [e_start e_idx negb andb Nat.add]; apply Nat.eqb_refl.
    Qed.

    Lemma startedb_app j l1 l2 : startedb j (l1 ++ l2) = startedb j l1 || startedb j l2.
    Proof. apply existsb_app. Qed.
    Lemma endedb_app j l1 l2 : endedb j (l1 ++ l2) = endedb j l1 || endedb j l2.
    Proof. apply existsb_app. Qed.

    Lemma startedb_ex j l : startedb j l = true -> exists e, In e l /\ e_start e = true /\ e_idx e = j.
    Proof.
      intros H. apply existsb_exists in H. destruct H as [e [He H]]. unfold is_start in H.
      apply andb_true_iff in H. destruct H as [H1 H2]. apply Nat.eqb_eq in H2. eauto.
    Qed.
    Lemma endedb_ex j l : endedb j l = true -> exists e, In e l /\ e_start e = false /\ e_idx e = j.
    Proof.
      intros H. apply existsb_exists in H. destruct H as [e [He H]]. unfold is_end in H.
      apply andb_true_iff in H. destruct H as [H1 H2]. apply Nat.eqb_eq in H2. apply negb_true_iff in H1. eauto.
    Qed.

    (** the facts available when the sweep is at event [ev] *)
    Theorem event_facts pre ev post : evs = pre ++ ev :: post ->
      ev_ok ev /\
      (forall e, In e pre -> ev_cmp e ev <= 0) /\
      (forall e, In e post -> ev_cmp ev e <= 0) /\
      (forall e e', In e pre -> In e' post -> ev_cmp e e' <= 0) /\
      (forall e, In e pre -> ev_ok e) /\ (forall e, In e post -> ev_ok e) /\
      (e_start ev = true -> startedb (e_idx ev) pre = false /\ endedb (e_idx ev) pre = false) /\
      (e_start ev = false -> startedb (e_idx ev) pre = true /\ endedb (e_idx ev) pre = false).
    Proof.
      intros E. pose proof evs_sorted as Hs. rewrite E in Hs. destruct (SS_split _ _ _ _ Hs) as [S1 [S2 S3]].
      assert (Hok : forall e, In e (pre ++ ev :: post) -> ev_ok e) by (intros e He; apply evs_ok; now rewrite E).
      assert (Hev : ev_ok ev) by (apply Hok; apply in_or_app; right; now left).
      assert (Hpre : forall e, In e pre -> ev_ok e) by (intros e He; apply Hok; apply in_or_app; now left).
      assert (Hpost : forall e, In e post -> ev_ok e) by (intros e He; apply Hok; apply in_or_app; right; now right).
      assert (A1 : e_start ev = true -> startedb (e_idx ev) pre = false).
      { (* a start event: no earlier start of the same target *)
        intros Hst. apply cnt_zero_existsb.
        pose proof (cnt_perm (is_start (e_idx ev)) _ _ evs_perm) as Hc. rewrite E, cnt_app in Hc.
        destruct (events_from_cnt_start ts (e_idx ev) 0) as [Hle _]. rewrite Hc in Hle.
        unfold cnt at 2 in Hle. cbn [filter] in Hle. unfold is_start at 2 in Hle. rewrite Hst, Nat.eqb_refl in Hle.
        cbn in Hle. lia. }
      assert (A2 : e_start ev = true -> endedb (e_idx ev) pre = false).
      { (* ... and its end event is not before it *)
        intros Hst. destruct (endedb (e_idx ev) pre) eqn:Een; [|reflexivity]. exfalso.
        destruct (endedb_ex _ _ Een) as [e [He [He1 He2]]].
        pose proof (end_before_start _ _ (S1 e He) He1 Hst) as Hlt.
        destruct (Hpre e He) as [_ Hk]. destruct Hev as [Hi Hk']. rewrite He1, He2 in Hk. rewrite Hst in Hk'.
        rewrite Hk, Hk' in Hlt. pose proof (bounds_ordered _ Hi).
        pose proof (cmp_opp (t_max (tgt (e_idx ev))) (t_min (tgt (e_idx ev)))). lia. }
      assert (A3 : e_start ev = false -> startedb (e_idx ev) pre = true).
      { (* an end event: the start event of the target is before it *)
        intros Hen. destruct Hev as [Hi Hk']. rewrite Hen in Hk'.
        destruct (evs_all_started _ Hi) as [Hall _]. rewrite E, startedb_app in Hall.
        destruct (startedb (e_idx ev) pre) eqn:Est; [reflexivity|]. exfalso. cbn [orb] in Hall.
        change (ev :: post) with ([ev] ++ post) in Hall. rewrite startedb_app in Hall.
        assert (Hev0 : startedb (e_idx ev) [ev] = false) by (cbn; unfold is_start; now rewrite Hen).
        rewrite Hev0 in Hall. cbn [orb] in Hall.
        destruct (startedb_ex _ _ Hall) as [e [He [He1 He2]]].
        pose proof (end_before_start _ _ (S2 e He) Hen He1) as Hlt.
        destruct (Hpost e He) as [_ Hk]. rewrite He1, He2 in Hk. rewrite Hk, Hk' in Hlt.
        pose proof (bounds_ordered _ Hi).
        pose proof (cmp_opp (t_max (tgt (e_idx ev))) (t_min (tgt (e_idx ev)))). lia. }
      assert (A4 : e_start ev = false -> endedb (e_idx ev) pre = false).
      { intros Hen. apply cnt_zero_existsb.
        pose proof (cnt_perm (is_end (e_idx ev)) _ _ evs_perm) as Hc. rewrite E, cnt_app in Hc.
        destruct (events_from_cnt_end ts (e_idx ev) 0) as [Hle _]. rewrite Hc in Hle.
        unfold cnt at 2 in Hle. cbn [filter] in Hle. unfold is_end at 2 in Hle. rewrite Hen, Nat.eqb_refl in Hle.
        cbn in Hle. lia. }
      split; [exact Hev|]. split; [exact S1|]. split; [exact S2|]. split; [exact S3|].
      split; [exact Hpre|]. split; [exact Hpost|]. split; intros H; split; auto.
    Qed.
  End Targets.
End Events.
