(** The stable merge of Merge/Refine.v and the abstract scheduler: both can be
    cut along a "clean cut" (every row before the cut of one input is strictly
    below every row after the cut of every other input); lists without rows
    do not matter. *)
From Coq Require Import List ZArith Bool Arith Lia Sorting.Sorted Sorting.Permutation.
From PQ Require Import Merge.Model Merge.AbstractProofs Merge.Refine.
Import ListNotations.
Open Scope Z_scope.

(** pointwise concatenation of two vectors of lists *)
Fixpoint zapp {A : Type} (L R : list (list A)) : list (list A) :=
  match L, R with
  | l :: L', r :: R' => (l ++ r) :: zapp L' R'
  | _, _ => []
  end.

Lemma zapp_length {A} (L R : list (list A)) : length L = length R -> length (zapp L R) = length L.
Proof. revert R; induction L as [|l L IH]; intros [|r R] H; cbn in *; try lia. f_equal. apply IH. lia. Qed.

Lemma zapp_nth {A} (L R : list (list A)) i : length L = length R ->
  nth i (zapp L R) [] = nth i L [] ++ nth i R [].
Proof.
  revert R i; induction L as [|l L IH]; intros [|r R] [|i] H; cbn in *; try lia; try reflexivity.
  apply IH. lia.
Qed.

Lemma zapp_nth_error {A} (L R : list (list A)) i l r :
  nth_error L i = Some l -> nth_error R i = Some r -> nth_error (zapp L R) i = Some (l ++ r).
Proof.
  revert R i; induction L as [|l0 L IH]; intros [|r0 R] [|i] Hl Hr; cbn in *; try discriminate.
  - now inversion Hl; inversion Hr.
  - eauto.
Qed.

Lemma zapp_upd {A} (L R : list (list A)) i l : length L = length R ->
  upd (zapp L R) i (l ++ nth i R []) = zapp (upd L i l) R.
Proof.
  revert R i; induction L as [|l0 L IH]; intros [|r0 R] [|i] H; cbn in *; try lia; auto.
  f_equal. apply IH. lia.
Qed.

Lemma zapp_all_nil_l {A} (L R : list (list A)) :
  length L = length R -> Forall (fun l => l = []) L -> zapp L R = R.
Proof.
  revert R; induction L as [|l L IH]; intros [|r R] H HL; cbn in *; try lia; auto.
  inversion HL; subst. cbn. f_equal. apply IH; [lia|assumption].
Qed.

Section RefineMerge.
  Variable K : Type.
  Variable cmp : K -> K -> Z.
  Hypothesis cmp_opp : forall a b, cmp a b < 0 <-> cmp b a > 0.
  Hypothesis cmp_trans : forall a b d, cmp a b <= 0 -> cmp b d <= 0 -> cmp a d <= 0.

  Notation row := (row K).
  Notation rcmp := (rcmp cmp).
  Notation sorted := (sorted K cmp).
  Notation rle := (rle K cmp).
  Notation merge2s := (merge2s cmp).
  Notation smerge := (smerge cmp).

  (** ** the stable two-way merge *)
  Lemma merge2s_nil_l b : merge2s [] b = b.
  Proof. reflexivity. Qed.

  Lemma merge2s_nil_r a : merge2s a [] = a.
  Proof. destruct a; reflexivity. Qed.

  Lemma merge2s_cons x a y b :
    merge2s (x :: a) (y :: b) =
    if rcmp y x <? 0 then y :: merge2s (x :: a) b else x :: merge2s a (y :: b).
  Proof. reflexivity. Qed.

  Lemma merge2s_perm a : forall b, Permutation (a ++ b) (merge2s a b).
  Proof.
    induction a as [|x a IHa]; intros b; [reflexivity|].
    induction b as [|y b IHb].
    - rewrite merge2s_nil_r, app_nil_r. reflexivity.
    - rewrite merge2s_cons. destruct (rcmp y x <? 0).
      + rewrite <- IHb. symmetry. apply Permutation_middle.
      + cbn. constructor. apply IHa.
  Qed.

  Lemma merge2s_in a b z : In z (merge2s a b) <-> In z a \/ In z b.
  Proof.
    rewrite <- in_app_iff. split; intros H.
    - eapply Permutation_in; [symmetry; apply merge2s_perm|exact H].
    - eapply Permutation_in; [apply merge2s_perm|exact H].
  Qed.

  Lemma merge2s_sorted a : forall b, sorted a -> sorted b -> sorted (merge2s a b).
  Proof.
    induction a as [|x a IHa]; intros b Ha Hb; [exact Hb|].
    induction b as [|y b IHb]; [rewrite merge2s_nil_r; exact Ha|].
    rewrite merge2s_cons. inversion Ha as [|? ? Ha' Hxa]; subst. inversion Hb as [|? ? Hb' Hyb]; subst.
    rewrite Forall_forall in Hxa, Hyb.
    destruct (Z.ltb_spec (rcmp y x) 0) as [Hlt|Hge].
    - constructor; [apply IHb; assumption|]. rewrite Forall_forall. intros z Hz.
      apply merge2s_in in Hz. destruct Hz as [[<-|Hz]|Hz].
      + unfold rle. lia.
      + apply (rle_trans K cmp cmp_trans) with x; [unfold rle; lia|auto].
      + auto.
    - assert (Hxy : rle x y).
      { unfold rle, Model.rcmp in *. apply (cmp_ge_le K cmp cmp_opp). lia. }
      constructor; [apply IHa; assumption|]. rewrite Forall_forall. intros z Hz.
      apply merge2s_in in Hz. destruct Hz as [Hz|[<-|Hz]]; auto.
      apply (rle_trans K cmp cmp_trans) with y; auto.
  Qed.

  (** cutting a two-way merge: the rows of [l1] are <= those of [r2] and the
      rows of [l2] strictly below those of [r1] *)
  Lemma merge2s_split l1 : forall l2 r1 r2,
    (forall a b, In a l1 -> In b r2 -> rcmp a b <= 0) ->
    (forall a b, In a l2 -> In b r1 -> rcmp a b < 0) ->
    merge2s (l1 ++ r1) (l2 ++ r2) = merge2s l1 l2 ++ merge2s r1 r2.
  Proof.
    induction l1 as [|x l1 IH1]; intros l2; induction l2 as [|y l2 IH2]; intros r1 r2 H1 H2.
    - reflexivity.
    - cbn [app]. rewrite merge2s_nil_l. destruct r1 as [|x r1].
      + rewrite !merge2s_nil_l. reflexivity.
      + change ((y :: l2) ++ r2) with (y :: (l2 ++ r2)). rewrite merge2s_cons.
        assert (Hlt : rcmp y x < 0) by (apply H2; now left).
        destruct (Z.ltb_spec (rcmp y x) 0); [|lia].
        cbn [app]. f_equal.
        specialize (IH2 (x :: r1) r2 H1). cbn [app] in IH2. rewrite merge2s_nil_l in IH2. apply IH2.
        intros a b Ha Hb. apply H2; [now right|exact Hb].
    - rewrite merge2s_nil_r. cbn [app]. destruct r2 as [|y r2].
      + rewrite !merge2s_nil_r. reflexivity.
      + change ((x :: l1) ++ r1) with (x :: (l1 ++ r1)). rewrite merge2s_cons.
        assert (Hle : rcmp x y <= 0) by (apply H1; now left).
        destruct (Z.ltb_spec (rcmp y x) 0) as [Hlt|_].
        { unfold Model.rcmp in *. pose proof (cmp_opp (key y) (key x)). lia. }
        cbn [app]. f_equal.
        specialize (IH1 [] r1 (y :: r2)). cbn [app] in IH1. rewrite merge2s_nil_r in IH1. apply IH1.
        * intros a b Ha Hb. apply H1; [now right|exact Hb].
        * intros a b [].
    - change ((x :: l1) ++ r1) with (x :: (l1 ++ r1)). change ((y :: l2) ++ r2) with (y :: (l2 ++ r2)).
      rewrite !merge2s_cons. destruct (rcmp y x <? 0).
      + cbn [app]. f_equal. change (x :: (l1 ++ r1)) with ((x :: l1) ++ r1). apply IH2; [exact H1|].
        intros a b Ha Hb. apply H2; [now right|exact Hb].
      + cbn [app]. f_equal. change (y :: (l2 ++ r2)) with ((y :: l2) ++ r2). apply IH1; [|exact H2].
        intros a b Ha Hb. apply H1; [now right|exact Hb].
  Qed.

  (** ** the stable k-way merge *)
  Lemma smerge_cons l st : smerge (l :: st) = merge2s l (smerge st).
  Proof. reflexivity. Qed.

  Lemma smerge_in st z : In z (smerge st) <-> In z (concat st).
  Proof.
    induction st as [|l st IH]; cbn [concat]; [reflexivity|].
    rewrite smerge_cons, merge2s_in, in_app_iff, IH. reflexivity.
  Qed.

  Lemma smerge_perm st : Permutation (concat st) (smerge st).
  Proof.
    induction st as [|l st IH]; cbn [concat]; [reflexivity|].
    rewrite smerge_cons, <- merge2s_perm. now apply Permutation_app_head.
  Qed.

  Lemma smerge_sorted st : Forall sorted st -> sorted (smerge st).
  Proof.
    induction 1 as [|l st Hl Hst IH]; [constructor|]. rewrite smerge_cons. now apply merge2s_sorted.
  Qed.

  Lemma smerge_single l : smerge [l] = l.
  Proof. cbn. apply merge2s_nil_r. Qed.

  (* a clean cut: strict between different inputs *)
  Definition clean_cut (L R : list (list row)) : Prop :=
    forall i j a b, i <> j -> In a (nth i L []) -> In b (nth j R []) -> rcmp a b < 0.

  Lemma in_concat_nth_d (st : list (list row)) x :
    In x (concat st) -> exists j, In x (nth j st []).
  Proof.
    intros H. apply in_concat_nth in H. destruct H as [j [l [Hj Hx]]].
    exists j. now rewrite (nth_error_nth' _ _ _ [] Hj).
  Qed.

  Theorem smerge_split L : forall R,
    length L = length R -> clean_cut L R -> smerge (zapp L R) = smerge L ++ smerge R.
  Proof.
    induction L as [|l L IH]; intros [|r R] Hlen Hcut; cbn in Hlen; try lia; [reflexivity|].
    cbn [zapp]. rewrite !smerge_cons. rewrite IH.
    - apply merge2s_split.
      + intros a b Ha Hb. apply smerge_in in Hb. apply in_concat_nth_d in Hb. destruct Hb as [j Hb].
        assert (rcmp a b < 0); [|lia]. apply (Hcut 0%nat (S j)); auto.
      + intros a b Ha Hb. apply smerge_in in Ha. apply in_concat_nth_d in Ha. destruct Ha as [j Ha].
        apply (Hcut (S j) 0%nat); auto.
    - lia.
    - intros i j a b Hij Ha Hb. apply (Hcut (S i) (S j)); auto.
  Qed.

  (** lists without rows do not matter *)
  Definition nonempty {A} (l : list A) : bool := match l with [] => false | _ => true end.

  Lemma smerge_filter st : smerge (filter nonempty st) = smerge st.
  Proof.
    induction st as [|l st IH]; [reflexivity|]. destruct l as [|x l]; cbn [filter nonempty].
    - rewrite smerge_cons, merge2s_nil_l. exact IH.
    - rewrite !smerge_cons, IH. reflexivity.
  Qed.

  (** ** the abstract scheduler along a cut (<= is enough) *)
  Definition weak_cut (L R : list (list row)) : Prop :=
    forall i j a b, i <> j -> In a (nth i L []) -> In b (nth j R []) -> rcmp a b <= 0.

  Lemma sched_zapp L out L' : sched cmp L out L' -> forall R,
    length L = length R -> weak_cut L R -> sched cmp (zapp L R) out (zapp L' R).
  Proof.
    induction 1 as [st|st i r t out st' Hi Hh Hrun IH]; intros R Hlen Hcut; [constructor|].
    pose proof (nth_error_lt _ _ _ Hi) as Hlt.
    destruct (nth_error R i) as [ri|] eqn:HRi; [|apply nth_error_None in HRi; lia].
    apply sched_cons with (i := i) (t := t ++ ri).
    - change (r :: t ++ ri) with ((r :: t) ++ ri). now apply zapp_nth_error.
    - intros j r' t' Hj.
      assert (Hjlt : (j < length st)%nat).
      { apply nth_error_lt in Hj. rewrite zapp_length in Hj; lia. }
      destruct (nth_error st j) as [lj|] eqn:Hlj; [|apply nth_error_None in Hlj; lia].
      destruct (nth_error R j) as [rj|] eqn:Hrj; [|apply nth_error_None in Hrj; lia].
      rewrite (zapp_nth_error _ _ _ _ _ Hlj Hrj) in Hj. destruct lj as [|h lj].
      + cbn in Hj. destruct (Nat.eq_dec i j) as [->|Hne]; [rewrite Hi in Hlj; discriminate|].
        apply (Hcut i j); auto.
        * rewrite (nth_error_nth' _ _ _ [] Hi). now left.
        * rewrite (nth_error_nth' _ _ _ [] Hrj). inversion Hj; subst. now left.
      + cbn in Hj. inversion Hj; subst. exact (Hh j r' lj Hlj).
    - rewrite <- (nth_error_nth' _ _ _ [] HRi). rewrite zapp_upd by assumption.
      apply IH; [now rewrite upd_length|].
      intros a j x y Haj Hx Hy. destruct (Nat.eq_dec a i) as [->|Hne].
      + rewrite nth_upd_same in Hx by assumption. apply (Hcut i j); auto.
        rewrite (nth_error_nth' _ _ _ [] Hi). now right.
      + rewrite nth_upd_other in Hx by auto. apply (Hcut a j); auto.
  Qed.

  Lemma sched_length st out st' : sched cmp st out st' -> length st' = length st.
  Proof. induction 1 as [|st i r t out st' Hi Hh Hrun IH]; [reflexivity|]. now rewrite IH, upd_length. Qed.

  Theorem sched_split L R o1 o2 E1 E2 :
    length L = length R -> weak_cut L R ->
    sched cmp L o1 E1 -> all_empty K E1 -> sched cmp R o2 E2 ->
    sched cmp (zapp L R) (o1 ++ o2) E2.
  Proof.
    intros Hlen Hcut H1 He1 H2. eapply (sched_app K cmp); [apply sched_zapp; eauto|].
    rewrite zapp_all_nil_l; auto. rewrite (sched_length _ _ _ H1). exact Hlen.
  Qed.

  (** ** embedding a list of inputs into a longer vector whose other entries
      have no rows (the participants of a region among all the targets) *)
  Definition embeds (f : nat -> nat) (st ST : list (list row)) : Prop :=
    (forall j l, nth_error st j = Some l -> nth_error ST (f j) = Some l) /\
    (forall q l, nth_error ST q = Some l -> l <> [] -> exists j, q = f j /\ nth_error st j = Some l) /\
    (forall j j', (j < length st)%nat -> (j' < length st)%nat -> f j = f j' -> j = j').

  Lemma sched_embed f st out st' : sched cmp st out st' -> forall ST,
    embeds f st ST -> exists ST', sched cmp ST out ST' /\ embeds f st' ST'.
  Proof.
    induction 1 as [st|st i r t out st' Hi Hh Hrun IH]; intros ST HE; [exists ST; split; [constructor|exact HE]|].
    destruct HE as [E1 [E2 E3]].
    pose proof (nth_error_lt _ _ _ Hi) as Hlt.
    pose proof (E1 _ _ Hi) as HSi. pose proof (nth_error_lt _ _ _ HSi) as HSlt.
    destruct (IH (upd ST (f i) t)) as [ST' [Hrun' HE']].
    - split; [|split].
      + intros j l Hj. destruct (Nat.eq_dec j i) as [->|Hne].
        * rewrite nth_error_upd_same in Hj by assumption. inversion Hj; subst.
          now apply nth_error_upd_same.
        * rewrite nth_error_upd_other in Hj by auto.
          rewrite nth_error_upd_other; [auto|]. intros Hf. apply Hne. symmetry.
          apply E3; auto. eapply nth_error_lt; eauto.
      + intros q l Hq Hne. destruct (Nat.eq_dec q (f i)) as [->|Hqi].
        * rewrite nth_error_upd_same in Hq by assumption. inversion Hq; subst.
          exists i. split; [reflexivity|]. now apply nth_error_upd_same.
        * rewrite nth_error_upd_other in Hq by auto. destruct (E2 _ _ Hq Hne) as [j [-> Hj]].
          exists j. split; [reflexivity|]. rewrite nth_error_upd_other; [exact Hj|]. intros ->. now apply Hqi.
      + intros j j'. rewrite upd_length. apply E3.
    - exists ST'. split; [|exact HE']. apply sched_cons with (i := f i) (t := t); auto.
      intros q r' t' Hq. destruct (E2 _ _ Hq) as [j [-> Hj]]; [discriminate|]. exact (Hh j r' t' Hj).
  Qed.

  Lemma embeds_all_empty f st ST : embeds f st ST -> all_empty K st -> all_empty K ST.
  Proof.
    intros [_ [E2 _]] He. unfold all_empty in *. rewrite Forall_forall in *. intros l Hl.
    destruct l as [|x l]; [reflexivity|]. apply In_nth_error in Hl. destruct Hl as [q Hq].
    destruct (E2 _ _ Hq) as [j [_ Hj]]; [discriminate|]. apply He. eapply nth_error_In; eauto.
  Qed.

  Theorem sched_embed_complete f st out st' ST :
    sched cmp st out st' -> all_empty K st' -> embeds f st ST ->
    exists ST', sched cmp ST out ST' /\ all_empty K ST'.
  Proof.
    intros Hrun He HE. destruct (sched_embed f _ _ _ Hrun _ HE) as [ST' [H1 H2]].
    exists ST'. split; [exact H1|]. eapply embeds_all_empty; eauto.
  Qed.

  (** ** scattering the participants (target index, rows) over [k] slots *)
  Fixpoint lookup (q : nat) (pcs : list (nat * list row)) : list row :=
    match pcs with
    | [] => []
    | x :: t => if (fst x =? q)%nat then snd x else lookup q t
    end.

  Definition scatter (k : nat) (pcs : list (nat * list row)) : list (list row) :=
    map (fun q => lookup q pcs) (List.seq 0 k).

  Lemma scatter_length k pcs : length (scatter k pcs) = k.
  Proof. unfold scatter. now rewrite map_length, seq_length. Qed.

  Lemma scatter_nth k pcs q : (q < k)%nat -> nth q (scatter k pcs) [] = lookup q pcs.
  Proof.
    intros H. unfold scatter. rewrite (nth_indep _ [] (lookup k pcs)) by (now rewrite map_length, seq_length).
    change (lookup k pcs) with ((fun q => lookup q pcs) k). rewrite map_nth, seq_nth by assumption. reflexivity.
  Qed.

  Lemma scatter_nth_error k pcs q : (q < k)%nat -> nth_error (scatter k pcs) q = Some (lookup q pcs).
  Proof.
    intros H. rewrite <- (scatter_nth k pcs q H). apply List.nth_error_nth'. now rewrite scatter_length.
  Qed.

  Lemma lookup_none q pcs : (forall x, In x pcs -> fst x <> q) -> lookup q pcs = [].
  Proof.
    induction pcs as [|x t IH]; intros H; [reflexivity|]. cbn.
    destruct (Nat.eqb_spec (fst x) q) as [E|_]; [exfalso; eapply H; eauto; now left|].
    apply IH. intros y Hy. apply H. now right.
  Qed.

  Lemma lookup_in q pcs x : NoDup (map fst pcs) -> In x pcs -> fst x = q -> lookup q pcs = snd x.
  Proof.
    induction pcs as [|y t IH]; intros Hnd Hin Hq; [contradiction|]. destruct Hin as [->|Hx]; cbn.
    - subst. now rewrite Nat.eqb_refl.
    - inversion Hnd as [|? ? Hnin Hnd']; subst.
      destruct (Nat.eqb_spec (fst y) (fst x)) as [E|_]; [|now apply IH].
      exfalso. apply Hnin. rewrite E. now apply in_map.
  Qed.

  Lemma filter_scatter_aux n : forall s pcs,
    StronglySorted lt (map fst pcs) -> (forall x, In x pcs -> (s <= fst x < s + n)%nat) ->
    filter nonempty (map (fun q => lookup q pcs) (List.seq s n)) = filter nonempty (map snd pcs).
  Proof.
    induction n as [|n IH]; intros s pcs Hs Hr.
    - destruct pcs as [|x t]; [reflexivity|]. specialize (Hr x (or_introl eq_refl)). lia.
    - cbn [List.seq map filter]. destruct pcs as [|x t].
      + cbn [lookup nonempty]. apply (IH (S s) []); [constructor|intros ? []].
      + cbn [map] in Hs. inversion Hs as [|? ? Hs' Hf]; subst. rewrite Forall_forall in Hf.
        assert (Hgt : forall y, In y t -> (fst x < fst y)%nat) by (intros y Hy; apply Hf; now apply in_map).
        pose proof (Hr x (or_introl eq_refl)) as Hx.
        destruct (Nat.eq_dec (fst x) s) as [E|Hne].
        * assert (Hrest : map (fun q => lookup q (x :: t)) (List.seq (S s) n) = map (fun q => lookup q t) (List.seq (S s) n)).
          { apply map_ext_in. intros q Hq. apply in_seq in Hq. cbn [lookup].
            destruct (Nat.eqb_spec (fst x) q); [lia|reflexivity]. }
          rewrite Hrest, (IH (S s) t).
          -- cbn [lookup]. rewrite E, Nat.eqb_refl. reflexivity.
          -- exact Hs'.
          -- intros y Hy. specialize (Hgt y Hy). specialize (Hr y (or_intror Hy)). lia.
        * rewrite (lookup_none s (x :: t)).
          2:{ intros y [<-|Hy]; [exact Hne|]. specialize (Hgt y Hy). lia. }
          cbn [nonempty]. apply (IH (S s) (x :: t)); [exact Hs|].
          intros y [<-|Hy]; [lia|]. specialize (Hgt y Hy). specialize (Hr y (or_intror Hy)). lia.
  Qed.

  Theorem smerge_scatter k pcs :
    StronglySorted lt (map fst pcs) -> (forall x, In x pcs -> (fst x < k)%nat) ->
    smerge (scatter k pcs) = smerge (map snd pcs).
  Proof.
    intros Hs Hk. rewrite <- smerge_filter, <- (smerge_filter (map snd pcs)). f_equal.
    apply filter_scatter_aux; [exact Hs|]. intros x Hx. specialize (Hk x Hx). lia.
  Qed.

  Theorem embeds_scatter k pcs :
    NoDup (map fst pcs) -> (forall x, In x pcs -> (fst x < k)%nat) ->
    embeds (fun j => fst (nth j pcs (0%nat, []))) (map snd pcs) (scatter k pcs).
  Proof.
    intros Hnd Hk. split; [|split].
    - intros j l Hj. rewrite nth_error_map in Hj. destruct (nth_error pcs j) as [x|] eqn:Hx; [|discriminate].
      cbn in Hj. inversion Hj; subst. rewrite (nth_error_nth' _ _ _ (0%nat, []) Hx).
      pose proof (nth_error_In _ _ Hx) as Hin.
      rewrite scatter_nth_error by auto. f_equal. now apply lookup_in.
    - intros q l Hq Hne. pose proof (nth_error_lt _ _ _ Hq) as Hlt. rewrite scatter_length in Hlt.
      rewrite scatter_nth_error in Hq by assumption. inversion Hq; subst. clear Hq.
      assert (Hex : exists x, In x pcs /\ fst x = q).
      { clear Hnd Hk Hlt. induction pcs as [|y t IH]; [now contradiction Hne|]. cbn in Hne.
        destruct (Nat.eqb_spec (fst y) q) as [E|_]; [exists y; split; [now left|exact E]|].
        destruct (IH Hne) as [x [Hx Ex]]. exists x. split; [now right|exact Ex]. }
      destruct Hex as [x [Hx Ex]]. apply In_nth_error in Hx. destruct Hx as [j Hj]. exists j.
      rewrite (nth_error_nth' _ _ _ (0%nat, []) Hj). split; [now symmetry|].
      rewrite nth_error_map, Hj. cbn. f_equal. symmetry. apply lookup_in; auto. eapply nth_error_In; eauto.
    - intros j j' Hj Hj' E. rewrite map_length in Hj, Hj'.
      rewrite <- !(map_nth fst) in E. cbn in E.
      apply (proj1 (NoDup_nth (map fst pcs) 0%nat) Hnd); auto; now rewrite map_length.
  Qed.

  (** ** the stable merge is a run of the abstract scheduler *)
  Lemma sched_cons_nil st out E : sched cmp st out E -> sched cmp ([] :: st) out ([] :: E).
  Proof.
    induction 1 as [st|st i r t out st' Hi Hh Hrun IH]; [constructor|].
    apply sched_cons with (i := S i) (t := t); [exact Hi| |exact IH].
    intros [|j] r' t' Hj; cbn in Hj; [discriminate|]. exact (Hh j r' t' Hj).
  Qed.

  Lemma merge2s_sched l : sorted l -> forall st out E,
    sched cmp st out E -> all_empty K E -> Forall sorted st ->
    sched cmp (l :: st) (merge2s l out) ([] :: E).
  Proof.
    induction l as [|x l IHl]; intros Hl st out E Hrun He Hs.
    - rewrite merge2s_nil_l. now apply sched_cons_nil.
    - assert (Hl' : sorted l) by (now inversion Hl).
      induction Hrun as [st|st i y t out st' Hi Hh Hrun IHrun].
      + rewrite merge2s_nil_r.
        pose proof (sched_prefix K cmp cmp_opp (x :: l) ((x :: l) :: st) 0%nat []) as Hp.
        cbn [upd] in Hp. apply Hp.
        * cbn. now rewrite app_nil_r.
        * now rewrite app_nil_r.
        * intros r j r' t' _ Hj Hn. destruct j as [|j]; [congruence|]. cbn in Hn.
          unfold all_empty in He. rewrite Forall_forall in He.
          specialize (He _ (nth_error_In _ _ Hn)). discriminate.
      + rewrite merge2s_cons. destruct (Z.ltb_spec (rcmp y x) 0) as [Hlt|Hge].
        * apply sched_cons with (i := S i) (t := t); [exact Hi| |].
          -- intros [|j] r' t' Hj; cbn in Hj; [inversion Hj; subst; lia|exact (Hh j r' t' Hj)].
          -- cbn [upd]. apply IHrun; [exact He|]. eapply (Forall_sorted_upd K cmp); eauto.
        * assert (Hxy : rle x y) by (unfold rle, Model.rcmp in *; apply (cmp_ge_le K cmp cmp_opp); lia).
          apply sched_cons with (i := 0%nat) (t := l); [reflexivity| |].
          -- intros [|j] r' t' Hj; cbn in Hj; [inversion Hj; subst; apply (rle_refl K cmp cmp_opp)|].
             apply (rle_trans K cmp cmp_trans) with y; [exact Hxy|exact (Hh j r' t' Hj)].
          -- cbn [upd]. apply IHl; [exact Hl'| |exact He|exact Hs]. econstructor; eauto.
  Qed.

  Theorem smerge_sched st : Forall sorted st ->
    exists E, sched cmp st (smerge st) E /\ all_empty K E.
  Proof.
    induction 1 as [|l st Hl Hst IH]; [exists []; split; constructor|].
    destruct IH as [E [Hrun He]]. exists ([] :: E). split; [|constructor; auto].
    rewrite smerge_cons. now apply merge2s_sched.
  Qed.


  (** ** two sorted arrangements of the same rows carry the same keys at the
      same positions (so any two complete runs of the scheduler on the same
      inputs differ only by the order of rows with equal keys) *)
  Definition cle (a : row) (l : list row) : nat := length (filter (fun y => rcmp y a <=? 0) l).

  Lemma cle_perm a l1 l2 : Permutation l1 l2 -> cle a l1 = cle a l2.
  Proof.
    unfold cle. induction 1 as [|x l l' _ IH|x y l|l l' l'' _ IH1 _ IH2]; cbn; try lia.
    - destruct (rcmp x a <=? 0); cbn; lia.
    - destruct (rcmp x a <=? 0), (rcmp y a <=? 0); cbn; lia.
  Qed.

  Lemma cle_lower l : forall i x, sorted l -> nth_error l i = Some x -> (i < cle x l)%nat.
  Proof.
    induction l as [|y l IH]; intros [|i] x Hs Hx; cbn in Hx; try discriminate.
    - inversion Hx; subst. unfold cle. cbn [filter]. unfold Model.rcmp. rewrite (cmp_refl K cmp cmp_opp). cbn. lia.
    - inversion Hs as [|? ? Hs' Hf]; subst. rewrite Forall_forall in Hf.
      assert (Hyx : rle y x) by (apply Hf; eapply nth_error_In; eauto).
      specialize (IH i x Hs' Hx). unfold cle in *. cbn [filter].
      destruct (Z.leb_spec (rcmp y x) 0); [cbn; lia|unfold rle in Hyx; lia].
  Qed.

  Lemma cle_upper l : forall i a b, sorted l -> nth_error l i = Some b -> rcmp a b < 0 -> (cle a l <= i)%nat.
  Proof.
    induction l as [|y l IH]; intros [|i] a b Hs Hb Hab; cbn in Hb; try discriminate.
    - inversion Hb; subst. unfold cle.
      assert (E : filter (fun z => rcmp z a <=? 0) (b :: l) = []).
      { clear IH. assert (Hall : forall z, In z (b :: l) -> (rcmp z a <=? 0) = false).
        { intros z Hz. pose proof (sorted_head_le K cmp cmp_opp _ _ _ Hs Hz) as Hbz.
          destruct (Z.leb_spec (rcmp z a) 0) as [Hza|]; [|reflexivity]. exfalso.
          assert (rcmp a z < 0).
          { unfold Model.rcmp in *. apply (cmp_lt_le_trans K cmp cmp_opp cmp_trans) with (key b); assumption. }
          unfold Model.rcmp in *. pose proof (cmp_opp (key a) (key z)). lia. }
        revert Hall. generalize (b :: l). intros l0. induction l0 as [|z l0 IH0]; intros Hall; [reflexivity|].
        cbn [filter]. rewrite (Hall z (or_introl eq_refl)). apply IH0. intros w Hw. apply Hall. now right. }
      rewrite E. cbn. lia.
    - inversion Hs as [|? ? Hs' Hf]; subst. specialize (IH i a b Hs' Hb Hab). unfold cle in *. cbn [filter].
      destruct (rcmp y a <=? 0); cbn; lia.
  Qed.

  Theorem sorted_perm_same_keys l1 l2 i a b :
    sorted l1 -> sorted l2 -> Permutation l1 l2 ->
    nth_error l1 i = Some a -> nth_error l2 i = Some b -> rcmp a b = 0.
  Proof.
    intros H1 H2 Hp Ha Hb.
    destruct (Z_lt_le_dec (rcmp a b) 0) as [Hlt|Hge].
    - pose proof (cle_lower _ _ _ H1 Ha). pose proof (cle_upper _ _ _ _ H2 Hb Hlt).
      rewrite (cle_perm a _ _ Hp) in *. lia.
    - destruct (Z_lt_le_dec (rcmp b a) 0) as [Hlt'|Hge'].
      + pose proof (cle_lower _ _ _ H2 Hb). pose proof (cle_upper _ _ _ _ H1 Ha Hlt').
        rewrite (cle_perm b _ _ Hp) in *. lia.
      + unfold Model.rcmp in *. pose proof (cmp_opp (key a) (key b)). pose proof (cmp_opp (key b) (key a)). lia.
  Qed.

End RefineMerge.
