(** refineSegment (merge_refine.go) preserves the merge: the rows of the
    refined plan -- lone slices read as they are, the regions in between
    merged -- are exactly the rows of the merge of the whole segment, in the
    same order ([refine_plan_equiv], for the stable merge); and whatever valid
    merge procedure reads the regions, the concatenation is a run of the
    abstract scheduler on the whole segment ([refine_plan_sched]).

    The proof follows the sweep over the sorted events with an invariant:
    the closed part of the plan covers the rows below a cursor vector [pc]
    which is a clean cut of the inputs (every row below the cut of one input
    is strictly below every row above the cut of every other input). *)
From Coq Require Import List ZArith Bool Arith Lia Sorting.Sorted Sorting.Permutation.
From PQ Require Import Merge.Model Merge.AbstractProofs Merge.Refine
  Merge.RefineMergeProofs Merge.RefineCutProofs Merge.RefineEventProofs.
Import ListNotations.
Open Scope Z_scope.

(** * lists *)
Lemma firstn_add_skipn {A} (l : list A) a b : firstn a l ++ firstn b (skipn a l) = firstn (a + b) l.
Proof.
  revert l; induction a as [|a IH]; intros l; [reflexivity|]. destruct l as [|x l]; cbn.
  - now rewrite firstn_nil.
  - f_equal. apply IH.
Qed.

Lemma In_skipn {A} (l : list A) n x : In x (skipn n l) -> In x l.
Proof. intros H. rewrite <- (firstn_skipn n l). apply in_or_app. now right. Qed.

Lemma In_firstn {A} (l : list A) n x : In x (firstn n l) -> In x l.
Proof. intros H. rewrite <- (firstn_skipn n l). apply in_or_app. now left. Qed.

Lemma In_skipn_mono {A} (l : list A) n m x : (n <= m)%nat -> In x (skipn m l) -> In x (skipn n l).
Proof.
  revert n m; induction l as [|y l IH]; intros n m Hle H.
  - rewrite skipn_nil in H. contradiction.
  - destruct n as [|n]; [cbn [skipn]; eapply In_skipn; eauto|].
    destruct m as [|m]; [lia|]. cbn [skipn] in *. apply (IH n m); [lia|exact H].
Qed.

Lemma In_firstn_mono {A} (l : list A) n m x : (n <= m)%nat -> In x (firstn n l) -> In x (firstn m l).
Proof.
  intros Hle H. replace m with (n + (m - n))%nat by lia. rewrite <- firstn_add_skipn.
  apply in_or_app. now left.
Qed.

Lemma zapp_map {A B} (f g : B -> list A) (l : list B) :
  zapp (map f l) (map g l) = map (fun j => f j ++ g j) l.
Proof. induction l as [|x l IH]; cbn; [reflexivity|]. now rewrite IH. Qed.

Lemma ssort_single {A} (cmpf : A -> A -> Z) x : ssort cmpf [x] = [x].
Proof. reflexivity. Qed.

Section RefineProofs.
  Variable K : Type.
  Variable cmp : K -> K -> Z.
  Variable V : Type.
  Variable col0 : K -> V.
  Variable cmp0 : V -> V -> Z.
  Hypothesis cmp_opp : forall a b, cmp a b < 0 <-> cmp b a > 0.
  Hypothesis cmp_trans : forall a b d, cmp a b <= 0 -> cmp b d <= 0 -> cmp a d <= 0.
  Hypothesis cmp0_opp : forall a b, cmp0 a b < 0 <-> cmp0 b a > 0.
  Hypothesis cmp0_trans : forall a b d, cmp0 a b <= 0 -> cmp0 b d <= 0 -> cmp0 a d <= 0.
  Hypothesis col0_strict : forall a b, cmp0 (col0 a) (col0 b) < 0 -> cmp a b < 0.

  Variable thr : nat.
  Variable ts : list (target K).
  Variable dk : K.

  Notation row := (row K).
  Notation rcmp := (rcmp cmp).
  Notation sorted := (sorted K cmp).
  Notation event := (event K).
  Notation state := (state K).
  Notation tgt := (tgt K ts dk).
  Notation k := (length ts).
  Notation rowsj j := (t_rows (tgt j)).
  Notation nrows j := (num_rows (tgt j)).
  Notation part_rows := (part_rows K ts dk).
  Notation piece_rows := (piece_rows K cmp ts dk).
  Notation plan_rows := (refined_rows K cmp ts dk).
  Notation smerge := (smerge cmp).
  Notation cur s j := (cursor K s j).
  Notation startedb := (startedb K).
  Notation endedb := (endedb K).

  (** what is assumed of every row group of the segment: its rows are sorted,
      there is at least one, minRow / maxRow bound them, and when the cut
      lookups exist the pages of the first sorting column hold rows *)
  Definition target_ok (t : target K) : Prop :=
    sorted (t_rows t) /\ t_rows t <> [] /\
    (forall r, In r (t_rows t) -> cmp (t_min t) (key r) <= 0 /\ cmp (key r) (t_max t) <= 0) /\
    (t_cuts t = true -> Forall (fun pg => pg <> []) (t_pages t)).

  Hypothesis ts_ok : forall j, (j < k)%nat -> target_ok (tgt j).

  Lemma bounds_ordered j : (j < k)%nat -> cmp (t_min (tgt j)) (t_max (tgt j)) <= 0.
  Proof.
    intros Hj. destruct (ts_ok j Hj) as [_ [Hne [Hb _]]]. destruct (rowsj j) as [|r l]; [contradiction|].
    destruct (Hb r (or_introl eq_refl)). eapply cmp_trans; eauto.
  Qed.

  (** ** vectors indexed by the targets *)
  Definition vecf (f : nat -> list row) : list (list row) := map f (List.seq 0 k).

  Lemma vecf_length f : length (vecf f) = k.
  Proof. unfold vecf. now rewrite map_length, seq_length. Qed.

  Lemma vecf_nth f j : (j < k)%nat -> nth j (vecf f) [] = f j.
  Proof.
    intros H. unfold vecf. rewrite (nth_indep _ [] (f k)) by (now rewrite map_length, seq_length).
    rewrite map_nth, seq_nth by assumption. reflexivity.
  Qed.

  Lemma vecf_nth_ge f j : (k <= j)%nat -> nth j (vecf f) [] = [].
  Proof. intros H. apply nth_overflow. now rewrite vecf_length. Qed.

  Lemma vecf_in f j x : In x (nth j (vecf f) []) -> (j < k)%nat /\ In x (f j).
  Proof.
    intros H. destruct (Nat.lt_ge_cases j k) as [Hlt|Hge].
    - split; [exact Hlt|]. now rewrite vecf_nth in H.
    - rewrite vecf_nth_ge in H by assumption. contradiction.
  Qed.

  Lemma vecf_ext f g : (forall j, (j < k)%nat -> f j = g j) -> vecf f = vecf g.
  Proof. intros H. unfold vecf. apply map_ext_in. intros j Hj. apply in_seq in Hj. apply H. lia. Qed.

  Lemma zapp_vecf f g : zapp (vecf f) (vecf g) = vecf (fun j => f j ++ g j).
  Proof. apply zapp_map. Qed.

  Lemma ins_vecf : map (@t_rows K) ts = vecf (fun j => rowsj j).
  Proof.
    apply (nth_ext _ _ [] []); [now rewrite map_length, vecf_length|].
    intros n Hn. rewrite map_length in Hn. rewrite vecf_nth by assumption.
    change (@nil row) with (t_rows (no_target K dk)). now rewrite map_nth.
  Qed.

  Definition takev (c : nat -> nat) := vecf (fun j => firstn (c j) (rowsj j)).
  Definition betw (c c' : nat -> nat) := vecf (fun j => firstn (c' j - c j) (skipn (c j) (rowsj j))).

  Lemma takev_betw c c' : (forall j, (j < k)%nat -> (c j <= c' j)%nat) ->
    zapp (takev c) (betw c c') = takev c'.
  Proof.
    intros H. unfold takev, betw. rewrite zapp_vecf. apply vecf_ext. intros j Hj.
    rewrite firstn_add_skipn. f_equal. specialize (H j Hj). lia.
  Qed.

  Lemma takev_all c : (forall j, (j < k)%nat -> c j = nrows j) -> takev c = map (@t_rows K) ts.
  Proof.
    intros H. rewrite ins_vecf. apply vecf_ext. intros j Hj. rewrite (H j Hj). apply firstn_all.
  Qed.

  (** a clean cut of the inputs at the cursor vector [c] *)
  Definition clean (c : nat -> nat) : Prop :=
    forall i j a b, (i < k)%nat -> (j < k)%nat -> i <> j ->
      In a (firstn (c i) (rowsj i)) -> In b (skipn (c j) (rowsj j)) -> rcmp a b < 0.

  Lemma clean_cut_betw c c' : clean c -> clean_cut K cmp (takev c) (betw c c').
  Proof.
    intros Hc i j a b Hij Ha Hb. apply vecf_in in Ha. apply vecf_in in Hb.
    destruct Ha as [Hi Ha], Hb as [Hj Hb]. apply (Hc i j); auto. eapply In_firstn; eauto.
  Qed.

  (** ** what the closed part of the plan means *)
  Definition piece_run (pc : piece) (out : list row) : Prop :=
    exists E, sched cmp (map part_rows pc) out E /\ all_empty K E.

  Definition PlanSem (plan : list piece) (c : nat -> nat) : Prop :=
    plan_rows plan = smerge (takev c) /\
    forall outs, Forall2 piece_run plan outs ->
      exists E, sched cmp (takev c) (concat outs) E /\ all_empty K E.

  Lemma piece_rows_smerge pc : piece_rows pc = smerge (map part_rows pc).
  Proof.
    destruct pc as [|p [|q pc]]; try reflexivity. cbn [Refine.piece_rows map]. now rewrite smerge_single.
  Qed.

  Lemma plan_rows_app p1 p2 : plan_rows (p1 ++ p2) = plan_rows p1 ++ plan_rows p2.
  Proof. unfold Refine.refined_rows. now rewrite flat_map_app. Qed.

  Definition idx_cmp (a b : part) : Z := Z.of_nat (p_idx a) - Z.of_nat (p_idx b).

  (* the parts of a region relative to the cursors before ([c]) and after ([c']) *)
  Definition RegOK (region : list part) (c c' : nat -> nat) : Prop :=
    NoDup (map p_idx region) /\
    (forall p, In p region -> (p_idx p < k)%nat /\ p_off p = c (p_idx p) /\ (p_off p + p_len p)%nat = c' (p_idx p)) /\
    (forall j, (j < k)%nat -> (forall p, In p region -> p_idx p <> j) -> c j = c' j).

  Definition tagp (p : part) : nat * list row := (p_idx p, part_rows p).

  Lemma scatter_region region c c' : RegOK region c c' ->
    scatter K k (map tagp region) = betw c c'.
  Proof.
    intros [Hnd [Hin Hout]]. apply (nth_ext _ _ [] []); [unfold betw; now rewrite scatter_length, vecf_length|].
    intros j Hj. rewrite scatter_length in Hj. rewrite scatter_nth by assumption.
    unfold betw. rewrite vecf_nth by assumption.
    destruct (in_dec Nat.eq_dec j (map p_idx region)) as [Hi|Hni].
    - apply in_map_iff in Hi. destruct Hi as [p [Ep Hp]].
      rewrite (lookup_in K j (map tagp region) (tagp p)).
      + cbn [snd tagp]. unfold Refine.part_rows. destruct (Hin p Hp) as [_ [Ho Hl]]. rewrite Ep in *.
        rewrite Ho. f_equal. lia.
      + rewrite map_map. cbn [fst tagp]. exact Hnd.
      + now apply in_map.
      + exact Ep.
    - rewrite lookup_none.
      + rewrite (Hout j Hj), Nat.sub_diag; [reflexivity|]. intros p Hp E. apply Hni. rewrite <- E. now apply in_map.
      + intros x Hx. apply in_map_iff in Hx. destruct Hx as [p [<- Hp]]. cbn. intros E. apply Hni.
        rewrite <- E. now apply in_map.
  Qed.

  Lemma idx_cmp_opp a b : idx_cmp a b < 0 <-> idx_cmp b a > 0.
  Proof. unfold idx_cmp. lia. Qed.
  Lemma idx_cmp_trans a b d : idx_cmp a b <= 0 -> idx_cmp b d <= 0 -> idx_cmp a d <= 0.
  Proof. unfold idx_cmp. lia. Qed.

  Lemma RegOK_perm r1 r2 c c' : Permutation r1 r2 -> RegOK r1 c c' -> RegOK r2 c c'.
  Proof.
    intros Hp [H1 [H2 H3]]. split; [|split].
    - eapply Permutation_NoDup; [apply Permutation_map; exact Hp|exact H1].
    - intros p Hin. apply H2. eapply Permutation_in; [symmetry; exact Hp|exact Hin].
    - intros j Hj Hn. apply H3; [exact Hj|]. intros p Hin. apply Hn. eapply Permutation_in; eauto.
  Qed.

  Lemma sorted_idx_strict (r : list part) :
    StronglySorted (fle part idx_cmp) r -> NoDup (map p_idx r) -> StronglySorted lt (map p_idx r).
  Proof.
    induction 1 as [|p r Hs IH Hf]; cbn; intros Hnd; [constructor|].
    inversion Hnd as [|? ? Hnin Hnd']; subst. constructor; [auto|].
    rewrite Forall_forall in *. intros x Hx. apply in_map_iff in Hx. destruct Hx as [q [<- Hq]].
    specialize (Hf q Hq). unfold fle, idx_cmp in Hf.
    assert (p_idx p <> p_idx q) by (intros E; apply Hnin; rewrite E; now apply in_map). lia.
  Qed.

  (** closing a region moves the cursor vector of the closed plan *)
  Lemma close_sem plan region c c' :
    PlanSem plan c -> clean c -> RegOK region c c' ->
    (forall j, (j < k)%nat -> (c j <= c' j)%nat) ->
    PlanSem (close_region plan region) c'.
  Proof.
    intros [Hrows Hrun] Hclean Hreg Hle.
    destruct region as [|p0 region0] eqn:Ereg.
    - (* no participant: nothing moves *)
      cbn [close_region]. destruct Hreg as [_ [_ Hout]].
      assert (E : takev c = takev c').
      { apply vecf_ext. intros j Hj. rewrite (Hout j Hj); [reflexivity|]. intros p []. }
      unfold PlanSem. rewrite <- E. split; assumption.
    - set (sr := ssort idx_cmp (p0 :: region0)).
      assert (Hclose : close_region plan (p0 :: region0) = plan ++ [sr]).
      { unfold sr. destruct region0; reflexivity. }
      rewrite Hclose. clear Hclose.
      assert (Hperm : Permutation (p0 :: region0) sr) by apply ssort_perm.
      pose proof (RegOK_perm _ _ _ _ Hperm Hreg) as Hreg'.
      pose proof (scatter_region _ _ _ Hreg') as Hsc.
      destruct Hreg' as [Hnd [Hin _]].
      assert (Hk : forall x, In x (map tagp sr) -> (fst x < k)%nat).
      { intros x Hx. apply in_map_iff in Hx. destruct Hx as [p [<- Hp]]. cbn. now apply Hin. }
      assert (Hmapfst : map fst (map tagp sr) = map p_idx sr) by (rewrite map_map; reflexivity).
      assert (Hmapsnd : map snd (map tagp sr) = map part_rows sr) by (rewrite map_map; reflexivity).
      split.
      + rewrite plan_rows_app, Hrows. unfold Refine.refined_rows at 1. cbn [flat_map]. rewrite app_nil_r.
        rewrite piece_rows_smerge, <- Hmapsnd, <- (smerge_scatter K cmp k).
        * rewrite Hsc, <- (smerge_split K cmp cmp_opp).
          -- now rewrite takev_betw.
          -- unfold takev, betw. now rewrite !vecf_length.
          -- now apply clean_cut_betw.
        * rewrite Hmapfst. apply sorted_idx_strict; [|exact Hnd].
          apply (ssort_sorted part idx_cmp idx_cmp_opp idx_cmp_trans).
        * exact Hk.
      + intros outs Hf. apply Forall2_app_inv_l in Hf. destruct Hf as [o1 [o2 [Hf1 [Hf2 ->]]]].
        inversion Hf2 as [|? o ? ? Hrun2 Hnil]; subst. inversion Hnil; subst. clear Hf2 Hnil.
        destruct (Hrun _ Hf1) as [E1 [R1 He1]]. destruct Hrun2 as [E2 [R2 He2]].
        rewrite <- Hmapsnd in R2.
        destruct (sched_embed_complete K cmp _ _ _ _ _ R2 He2 (embeds_scatter K k (map tagp sr)
                    ltac:(rewrite Hmapfst; exact Hnd) Hk)) as [E2' [R2' He2']].
        rewrite Hsc in R2'. exists E2'. split; [|exact He2'].
        rewrite concat_app. cbn [concat]. rewrite app_nil_r. rewrite <- (takev_betw c c') by assumption.
        eapply (sched_split K cmp); eauto.
        * unfold takev, betw. now rewrite !vecf_length.
        * intros i j a b Hij Ha Hb. assert (rcmp a b < 0); [|lia].
          eapply (clean_cut_betw c c' Hclean); eauto.
  Qed.

  (** ** rows and bounds *)
  Lemma rows_le_max j r : (j < k)%nat -> In r (rowsj j) -> cmp (key r) (t_max (tgt j)) <= 0.
  Proof. intros Hj Hr. destruct (ts_ok j Hj) as [_ [_ [Hb _]]]. now apply Hb. Qed.

  Lemma rows_ge_min j r : (j < k)%nat -> In r (rowsj j) -> cmp (t_min (tgt j)) (key r) <= 0.
  Proof. intros Hj Hr. destruct (ts_ok j Hj) as [_ [_ [Hb _]]]. now apply Hb. Qed.

  Lemma rows_apart j j' a b : (j < k)%nat -> (j' < k)%nat ->
    cmp (t_max (tgt j)) (t_min (tgt j')) < 0 -> In a (rowsj j) -> In b (rowsj j') -> rcmp a b < 0.
  Proof.
    intros Hj Hj' Hlt Ha Hb. unfold Model.rcmp.
    apply (cmp_le_lt_trans K cmp cmp_opp cmp_trans) with (t_max (tgt j)); [now apply rows_le_max|].
    apply (cmp_lt_le_trans K cmp cmp_opp cmp_trans) with (t_min (tgt j')); [exact Hlt|now apply rows_ge_min].
  Qed.

  (** the cut around a lone stretch of target [i]: every other target is
      entirely below ([E]: its rows are consumed) or entirely above ([F]: none
      of its rows is) *)
  Lemma clean_lone (E F : nat -> Prop) (curf : nat -> nat) i off en x :
    (i < k)%nat -> (off <= x <= en)%nat ->
    (forall j, (j < k)%nat -> j <> i -> (E j /\ curf j = nrows j) \/ (F j /\ curf j = 0%nat)) ->
    (forall j a b, (j < k)%nat -> j <> i -> E j -> In a (rowsj j) -> In b (skipn off (rowsj i)) -> rcmp a b < 0) ->
    (forall j a b, (j < k)%nat -> j <> i -> F j -> In a (firstn en (rowsj i)) -> In b (rowsj j) -> rcmp a b < 0) ->
    (forall j j' a b, (j < k)%nat -> (j' < k)%nat -> E j -> F j' -> In a (rowsj j) -> In b (rowsj j') -> rcmp a b < 0) ->
    clean (fun j => if (j =? i)%nat then x else curf j).
  Proof.
    intros Hi Hx Hcls Hlow Hup Hef a b ra rb Ha Hb Hab Hra Hrb. cbn beta in *.
    destruct (Nat.eqb_spec a i) as [->|Hai]; destruct (Nat.eqb_spec b i) as [->|Hbi]; try congruence.
    - (* rows of the lone target before the cut against another target *)
      destruct (Hcls b Hb Hbi) as [[_ Hc]|[Hf Hc]]; rewrite Hc in Hrb.
      + unfold num_rows in Hrb. rewrite skipn_all in Hrb. contradiction.
      + cbn [skipn] in Hrb. apply (Hup b); auto. eapply In_firstn_mono; [|exact Hra]. lia.
    - destruct (Hcls a Ha Hai) as [[He Hc]|[_ Hc]]; rewrite Hc in Hra.
      + unfold num_rows in Hra. rewrite firstn_all in Hra. apply (Hlow a); auto.
        eapply In_skipn_mono; [|exact Hrb]. lia.
      + cbn [firstn] in Hra. contradiction.
    - destruct (Hcls a Ha Hai) as [[He Hc]|[_ Hc]]; rewrite Hc in Hra; [|cbn [firstn] in Hra; contradiction].
      destruct (Hcls b Hb Hbi) as [[_ Hc']|[Hf Hc']]; rewrite Hc' in Hrb.
      + unfold num_rows in Hrb. rewrite skipn_all in Hrb. contradiction.
      + unfold num_rows in Hra. rewrite firstn_all in Hra. cbn [skipn] in Hrb. apply (Hef a b); auto.
  Qed.

  (** ** the invariant of the sweep, after the events [pre] *)
  Definition lone_low (pre : list event) (s : state) (i : nat) : Prop :=
    match s_leftk s with
    | Some kk => forall e, In e pre -> cmp (e_key e) kk <= 0
    | None => cur s i = 0%nat /\ forall e, In e pre -> e_start e = false -> cmp (e_key e) (t_min (tgt i)) < 0
    end.

  Record Inv (pre : list event) (s : state) (pc : nat -> nat) : Prop := mkInv {
    i_len : length (s_cursors s) = k;
    i_le : forall j, (j < k)%nat -> (pc j <= cur s j <= nrows j)%nat;
    i_nodup : NoDup (s_active s);
    i_act : forall j, In j (s_active s) <-> ((j < k)%nat /\ startedb j pre = true /\ endedb j pre = false);
    i_c0 : forall j, (j < k)%nat -> startedb j pre = false -> cur s j = 0%nat;
    i_cN : forall j, (j < k)%nat -> endedb j pre = true -> cur s j = nrows j;
    i_lone : forall i, s_lone s = Some i -> s_active s = [i] /\ lone_low pre s i;
    i_plan : PlanSem (s_plan s) pc;
    i_clean : clean pc;
    i_reg_nodup : NoDup (map p_idx (s_region s));
    i_reg : forall p, In p (s_region s) ->
              (p_idx p < k)%nat /\ p_off p = pc (p_idx p) /\ (p_off p + p_len p)%nat = cur s (p_idx p) /\
              endedb (p_idx p) pre = true;
    i_reg_out : forall j, (j < k)%nat -> (forall p, In p (s_region s) -> p_idx p <> j) -> pc j = cur s j }.

  Definition EFfact (pre : list event) : Prop :=
    forall j j', (j < k)%nat -> (j' < k)%nat -> endedb j pre = true -> startedb j' pre = false ->
      cmp (t_max (tgt j)) (t_min (tgt j')) < 0.

  Definition Upfact (pre : list event) (s : state) (rightk : option K) : Prop :=
    match rightk with
    | Some kk => forall j, (j < k)%nat -> startedb j pre = false -> cmp kk (t_min (tgt j)) <= 0
    | None => forall i, s_lone s = Some i -> forall j, (j < k)%nat -> startedb j pre = false ->
                cmp (t_max (tgt i)) (t_min (tgt j)) < 0
    end.

  Notation resolve_lone := (resolve_lone K V col0 cmp0 true thr ts dk).

  Lemma nth_upd_cases (l : list nat) i x j : (i < length l)%nat ->
    nth j (upd l i x) 0%nat = if (j =? i)%nat then x else nth j l 0%nat.
  Proof.
    intros Hi. destruct (Nat.eqb_spec j i) as [->|Hne]; [now apply nth_upd_same|apply nth_upd_other; auto].
  Qed.

  (** resolveLone *)
  Lemma resolve_inv pre s pc rightk :
    Inv pre s pc -> EFfact pre -> Upfact pre s rightk -> (forall e, In e pre -> ev_ok K ts dk e) ->
    exists pc', Inv pre (resolve_lone s rightk) pc' /\
                s_lone (resolve_lone s rightk) = None /\ s_active (resolve_lone s rightk) = s_active s.
  Proof.
    intros HI HEF HU Hpre. unfold Refine.resolve_lone. destruct (s_lone s) as [i|] eqn:El.
    2:{ exists pc. split; [exact HI|split; [exact El|reflexivity]]. }
    destruct (i_lone _ _ _ HI i El) as [Hact Hlow].
    assert (Hiact : (i < k)%nat /\ startedb i pre = true /\ endedb i pre = false).
    { apply (i_act _ _ _ HI). rewrite Hact. now left. }
    destruct Hiact as [Hi [Hist Hien]].
    set (s0 := mkState K (s_plan s) (s_region s) (s_cursors s) (s_active s) (s_sliced s) None (s_leftk s)).
    assert (HI0 : Inv pre s0 pc).
    { destruct HI. constructor; cbn [s0 s_plan s_region s_cursors s_active s_sliced s_lone s_leftk]; try assumption.
      intros ? Hd. discriminate. }
    destruct (t_cuts (tgt i)) eqn:Ecuts; cbn [negb]; [|exists pc; split; [exact HI0|split; reflexivity]].
    set (off0 := match s_leftk s with Some k0 => cut_above_gen K V col0 cmp0 true (tgt i) k0 | None => 0%nat end).
    set (en0 := match rightk with Some k0 => cut_below K V col0 cmp0 (tgt i) k0 | None => nrows i end).
    set (off := Nat.max off0 (cur s i)). set (en := Nat.min en0 (nrows i)).
    destruct (Nat.ltb_spec en (off + thr)) as [Hsmall|Hbig]; [exists pc; split; [exact HI0|split; reflexivity]|].
    (* the slice [off, en) of target i *)
    destruct (ts_ok i Hi) as [Hsorted [_ [_ Hpages]]]. specialize (Hpages Ecuts).
    assert (Hoff : (cur s i <= off <= en)%nat) by lia.
    assert (Hen : (en <= nrows i)%nat) by lia.
    assert (Hnotreg : forall p, In p (s_region s) -> p_idx p <> i).
    { intros p Hp E. destruct (i_reg _ _ _ HI p Hp) as [_ [_ [_ He]]]. rewrite E in He. congruence. }
    assert (Hpci : pc i = cur s i) by (apply (i_reg_out _ _ _ HI); assumption).
    set (c1 := fun j => if (j =? i)%nat then off else cur s j).
    set (c2 := fun j => if (j =? i)%nat then en else cur s j).
    (* every other target is consumed or untouched *)
    assert (Hcls : forall j, (j < k)%nat -> j <> i ->
              (endedb j pre = true /\ cur s j = nrows j) \/ (startedb j pre = false /\ cur s j = 0%nat)).
    { intros j Hj Hji. destruct (endedb j pre) eqn:Ee; [left; split; [reflexivity|now apply (i_cN _ _ _ HI)]|].
      destruct (startedb j pre) eqn:Es; [|right; split; [reflexivity|now apply (i_c0 _ _ _ HI)]].
      exfalso. assert (Hin : In j (s_active s)) by (apply (i_act _ _ _ HI); auto).
      rewrite Hact in Hin. destruct Hin as [Hin|[]]. congruence. }
    assert (Hlower : forall j a b, (j < k)%nat -> j <> i -> endedb j pre = true ->
              In a (rowsj j) -> In b (skipn off (rowsj i)) -> rcmp a b < 0).
    { intros j a b Hj Hji He Ha Hb. destruct (endedb_ex K _ _ He) as [e [Hine [Hes Hei]]].
      destruct (Hpre e Hine) as [_ Hk]. rewrite Hes, Hei in Hk.
      pose proof (rows_le_max j a Hj Ha) as Hamax. unfold Model.rcmp.
      unfold lone_low in Hlow. unfold off, off0 in Hb. destruct (s_leftk s) as [kk|].
      - apply (cmp_le_lt_trans K cmp cmp_opp cmp_trans) with kk.
        + apply cmp_trans with (t_max (tgt j)); [exact Hamax|]. rewrite <- Hk. now apply Hlow.
        + apply (cut_above_safe K cmp V col0 cmp0 cmp_opp cmp_trans cmp0_opp cmp0_trans col0_strict (tgt i) Hsorted Hpages).
          eapply In_skipn_mono; [|exact Hb]. lia.
      - destruct Hlow as [_ Hlow]. specialize (Hlow e Hine Hes). rewrite Hk in Hlow.
        apply (cmp_le_lt_trans K cmp cmp_opp cmp_trans) with (t_max (tgt j)); [exact Hamax|].
        apply (cmp_lt_le_trans K cmp cmp_opp cmp_trans) with (t_min (tgt i)); [exact Hlow|].
        apply rows_ge_min; [exact Hi|]. eapply In_skipn; eauto. }
    assert (Hupper : forall j a b, (j < k)%nat -> j <> i -> startedb j pre = false ->
              In a (firstn en (rowsj i)) -> In b (rowsj j) -> rcmp a b < 0).
    { intros j a b Hj Hji Hs Ha Hb. pose proof (rows_ge_min j b Hj Hb) as Hbmin. unfold Model.rcmp.
      unfold Upfact in HU. unfold en, en0 in Ha. destruct rightk as [kk|].
      - apply (cmp_lt_le_trans K cmp cmp_opp cmp_trans) with kk.
        + apply (cut_below_safe K cmp V col0 cmp0 cmp_opp cmp_trans cmp0_opp cmp0_trans col0_strict (tgt i) Hsorted Hpages).
          eapply In_firstn_mono; [|exact Ha]. lia.
        + apply cmp_trans with (t_min (tgt j)); [now apply HU|exact Hbmin].
      - apply (rows_apart i j); auto. eapply In_firstn; eauto. }
    assert (Hef : forall j j' a b, (j < k)%nat -> (j' < k)%nat -> endedb j pre = true -> startedb j' pre = false ->
              In a (rowsj j) -> In b (rowsj j') -> rcmp a b < 0).
    { intros j j' a b Hj Hj' He Hs Ha Hb. apply (rows_apart j j'); auto. }
    assert (Hclean1 : clean c1).
    { apply (clean_lone (fun j => endedb j pre = true) (fun j => startedb j pre = false) (fun j => cur s j) i off en off);
        auto; lia. }
    assert (Hclean2 : clean c2).
    { apply (clean_lone (fun j => endedb j pre = true) (fun j => startedb j pre = false) (fun j => cur s j) i off en en);
        auto; lia. }
    set (region' := if (cur s i <? off)%nat then s_region s ++ [mkPart i (cur s i) (off - cur s i)] else s_region s).
    assert (Hreg1 : RegOK region' pc c1).
    { unfold region'. destruct (Nat.ltb_spec (cur s i) off) as [Hlt|Hge]; split; [|split| |split].
      - rewrite map_app. cbn [map p_idx]. apply (Permutation_NoDup (l := i :: map p_idx (s_region s))).
        + apply Permutation_cons_append.
        + constructor; [|exact (i_reg_nodup _ _ _ HI)]. intros Hin. apply in_map_iff in Hin.
          destruct Hin as [p [E Hp]]. exact (Hnotreg p Hp E).
      - intros p Hp. apply in_app_or in Hp. destruct Hp as [Hp|[<-|[]]].
        + destruct (i_reg _ _ _ HI p Hp) as [R1 [R2 [R3 _]]]. pose proof (Hnotreg p Hp) as Hne.
          unfold c1. destruct (Nat.eqb_spec (p_idx p) i); [contradiction|]. auto.
        + cbn [p_idx p_off p_len]. unfold c1. rewrite Nat.eqb_refl. repeat split; [exact Hi|now symmetry|lia].
      - intros j Hj Hn. unfold c1. destruct (Nat.eqb_spec j i) as [->|Hne].
        + exfalso. apply (Hn (mkPart i (cur s i) (off - cur s i))); [apply in_or_app; right; now left|reflexivity].
        + apply (i_reg_out _ _ _ HI); [exact Hj|]. intros p Hp. apply Hn. apply in_or_app. now left.
      - exact (i_reg_nodup _ _ _ HI).
      - intros p Hp. destruct (i_reg _ _ _ HI p Hp) as [R1 [R2 [R3 _]]]. pose proof (Hnotreg p Hp) as Hne.
        unfold c1. destruct (Nat.eqb_spec (p_idx p) i); [contradiction|]. auto.
      - intros j Hj Hn. unfold c1. destruct (Nat.eqb_spec j i) as [->|Hne]; [lia|].
        now apply (i_reg_out _ _ _ HI). }
    assert (Hle1 : forall j, (j < k)%nat -> (pc j <= c1 j)%nat).
    { intros j Hj. unfold c1. destruct (Nat.eqb_spec j i) as [->|_]; [lia|]. apply (i_le _ _ _ HI j Hj). }
    pose proof (close_sem _ _ _ _ (i_plan _ _ _ HI) (i_clean _ _ _ HI) Hreg1 Hle1) as Hsem1.
    assert (Hreg2 : RegOK [mkPart i off (en - off)] c1 c2).
    { split; [|split].
      - cbn. constructor; [intros []|constructor].
      - intros p [<-|[]]. cbn [p_idx p_off p_len]. unfold c1, c2. rewrite Nat.eqb_refl. repeat split; [exact Hi|lia].
      - intros j Hj Hn. unfold c1, c2. destruct (Nat.eqb_spec j i) as [->|_]; [|reflexivity].
        exfalso. apply (Hn (mkPart i off (en - off))); [now left|reflexivity]. }
    assert (Hle2 : forall j, (j < k)%nat -> (c1 j <= c2 j)%nat).
    { intros j Hj. unfold c1, c2. destruct (Nat.eqb_spec j i); lia. }
    pose proof (close_sem _ _ _ _ Hsem1 Hclean1 Hreg2 Hle2) as Hsem2.
    cbn [close_region] in Hsem2.
    exists c2. split; [|split; reflexivity].
    pose proof (i_len _ _ _ HI) as Hlen.
    assert (Hcur : forall j, nth j (upd (s_cursors s) i en) 0%nat = c2 j).
    { intros j. rewrite nth_upd_cases by lia. reflexivity. }
    constructor; unfold cursor; cbn [s_plan s_region s_cursors s_active s_sliced s_lone s_leftk].
    - now rewrite upd_length.
    - intros j Hj. rewrite Hcur. unfold c2. destruct (Nat.eqb_spec j i) as [->|_]; [lia|].
      pose proof (i_le _ _ _ HI j Hj). unfold cursor in *. lia.
    - exact (i_nodup _ _ _ HI).
    - exact (i_act _ _ _ HI).
    - intros j Hj Hs. rewrite Hcur. unfold c2. destruct (Nat.eqb_spec j i) as [->|_]; [congruence|].
      exact (i_c0 _ _ _ HI j Hj Hs).
    - intros j Hj He. rewrite Hcur. unfold c2. destruct (Nat.eqb_spec j i) as [->|_]; [congruence|].
      exact (i_cN _ _ _ HI j Hj He).
    - intros ? Hd. discriminate.
    - exact Hsem2.
    - exact Hclean2.
    - constructor.
    - intros p [].
    - intros j Hj _. now rewrite Hcur.
  Qed.


  Notation step := (step K V col0 cmp0 true thr ts dk).
  Notation evs := (evs K cmp ts).

  Lemma not_started_later pre ev post j : evs = pre ++ ev :: post -> (j < k)%nat -> startedb j pre = false ->
    exists e', In e' (ev :: post) /\ e_start e' = true /\ e_idx e' = j.
  Proof.
    intros E Hj Hs. destruct (evs_all_started K cmp ts dk j Hj) as [Hall _].
    rewrite E, startedb_app, Hs in Hall. cbn [orb] in Hall. now apply startedb_ex.
  Qed.

  Lemma startedb_snoc pre ev j :
    startedb j (pre ++ [ev]) = startedb j pre || (e_start ev && (e_idx ev =? j)%nat).
  Proof. rewrite startedb_app. cbn. unfold is_start. now rewrite orb_false_r. Qed.

  Lemma endedb_snoc pre ev j :
    endedb j (pre ++ [ev]) = endedb j pre || (negb (e_start ev) && (e_idx ev =? j)%nat).
  Proof. rewrite endedb_app. cbn. unfold is_end. now rewrite orb_false_r. Qed.

  (* the state after an end event *)
  Lemma end_build pre ev s1 pc region' cursors' lone' leftk' :
    let f := e_idx ev in
    Inv pre s1 pc -> s_lone s1 = None -> e_start ev = false -> (f < k)%nat ->
    startedb f pre = true -> endedb f pre = false ->
    length cursors' = k ->
    (forall j, nth j cursors' 0%nat = if (j =? f)%nat then nrows f else cur s1 j) ->
    ((region' = s_region s1 /\ cur s1 f = nrows f) \/
     (region' = s_region s1 ++ [mkPart f (cur s1 f) (nrows f - cur s1 f)] /\ (cur s1 f < nrows f)%nat)) ->
    (lone' = None \/ exists l, lone' = Some l /\ del_active (s_active s1) f = [l] /\ leftk' = Some (e_key ev)) ->
    (forall e, In e pre -> cmp (e_key e) (e_key ev) <= 0) ->
    Inv (pre ++ [ev]) (mkState K (s_plan s1) region' cursors' (del_active (s_active s1) f) (s_sliced s1) lone' leftk') pc.
  Proof.
    intros f HI Hl1 Hend Hf Hfs Hfe Hlen Hcur Hreg Hlone Hkeys.
    assert (Hsb : forall j, startedb j (pre ++ [ev]) = startedb j pre).
    { intros j. rewrite startedb_snoc, Hend. cbn. apply orb_false_r. }
    assert (Heb : forall j, endedb j (pre ++ [ev]) = endedb j pre || (f =? j)%nat).
    { intros j. rewrite endedb_snoc, Hend. reflexivity. }
    assert (Hnotreg : forall p, In p (s_region s1) -> p_idx p <> f).
    { intros p Hp E. destruct (i_reg _ _ _ HI p Hp) as [_ [_ [_ He]]]. rewrite E in He. congruence. }
    assert (Hpcf : pc f = cur s1 f) by (apply (i_reg_out _ _ _ HI); assumption).
    constructor; unfold cursor; cbn [s_plan s_region s_cursors s_active s_sliced s_lone s_leftk].
    - exact Hlen.
    - intros j Hj. rewrite Hcur. pose proof (i_le _ _ _ HI j Hj) as H. unfold cursor in *.
      destruct (Nat.eqb_spec j f) as [->|_]; lia.
    - unfold del_active. apply NoDup_filter. exact (i_nodup _ _ _ HI).
    - intros j. rewrite Hsb, Heb. unfold del_active. rewrite filter_In, (i_act _ _ _ HI j).
      rewrite negb_true_iff, orb_false_iff, !Nat.eqb_neq. intuition congruence.
    - intros j Hj Hs. rewrite Hsb in Hs. rewrite Hcur.
      destruct (Nat.eqb_spec j f) as [->|_]; [congruence|]. exact (i_c0 _ _ _ HI j Hj Hs).
    - intros j Hj He. rewrite Heb in He. rewrite Hcur.
      destruct (Nat.eqb_spec j f) as [->|Hne]; [reflexivity|].
      apply orb_true_iff in He. destruct He as [He|He]; [exact (i_cN _ _ _ HI j Hj He)|].
      apply Nat.eqb_eq in He. congruence.
    - intros i Hi. destruct Hlone as [->|[l [-> [Hact ->]]]]; [discriminate|]. inversion Hi; subst i.
      split; [exact Hact|]. unfold lone_low. cbn [s_leftk]. intros e He. apply in_app_or in He.
      destruct He as [He|[<-|[]]]; [now apply Hkeys|]. rewrite (cmp_refl K cmp cmp_opp). lia.
    - exact (i_plan _ _ _ HI).
    - exact (i_clean _ _ _ HI).
    - destruct Hreg as [[-> _]|[-> _]]; [exact (i_reg_nodup _ _ _ HI)|].
      rewrite map_app. cbn [map p_idx]. apply (Permutation_NoDup (l := f :: map p_idx (s_region s1))).
      + apply Permutation_cons_append.
      + constructor; [|exact (i_reg_nodup _ _ _ HI)]. intros Hin. apply in_map_iff in Hin.
        destruct Hin as [p [E Hp]]. exact (Hnotreg p Hp E).
    - intros p Hp.
      assert (Hold : In p (s_region s1) ->
                (p_idx p < k)%nat /\ p_off p = pc (p_idx p) /\
                (p_off p + p_len p)%nat = nth (p_idx p) cursors' 0%nat /\ endedb (p_idx p) (pre ++ [ev]) = true).
      { intros Hin. destruct (i_reg _ _ _ HI p Hin) as [R1 [R2 [R3 R4]]]. pose proof (Hnotreg p Hin) as Hne.
        rewrite Hcur, Heb, R4. destruct (Nat.eqb_spec (p_idx p) f); [contradiction|]. auto. }
      destruct Hreg as [[-> _]|[-> Hlt]]; [now apply Hold|].
      apply in_app_or in Hp. destruct Hp as [Hp|[<-|[]]]; [now apply Hold|].
      cbn [p_idx p_off p_len]. rewrite Hcur, Heb, !Nat.eqb_refl, orb_true_r. unfold cursor in *.
      repeat split; [exact Hf|now symmetry|lia].
    - intros j Hj Hn. rewrite Hcur. destruct (Nat.eqb_spec j f) as [->|Hne].
      + destruct Hreg as [[-> Hc]|[-> _]]; [now rewrite <- Hc|].
        exfalso. apply (Hn (mkPart f (cur s1 f) (nrows f - cur s1 f))); [apply in_or_app; right; now left|reflexivity].
      + apply (i_reg_out _ _ _ HI); [exact Hj|]. intros p Hp. apply Hn.
        destruct Hreg as [[-> _]|[-> _]]; [exact Hp|apply in_or_app; now left].
  Qed.

  (** one event *)
  Lemma step_inv pre ev post s pc : evs = pre ++ ev :: post -> Inv pre s pc ->
    exists pc', Inv (pre ++ [ev]) (step s ev) pc'.
  Proof.
    intros E HI.
    destruct (event_facts K cmp cmp_opp cmp_trans ts dk bounds_ordered pre ev post E)
      as [Hev [S1 [S2 [S3 [Hpre [Hpost [Hst Hen]]]]]]].
    destruct Hev as [Hf Hkey]. set (f := e_idx ev) in *.
    assert (HEF : EFfact pre).
    { intros j j' Hj Hj' He Hs. destruct (endedb_ex K _ _ He) as [e [Hine [Hes Hei]]].
      destruct (not_started_later _ _ _ _ E Hj' Hs) as [e' [Hine' [Hes' Hei']]].
      assert (Hle : ev_cmp K cmp e e' <= 0) by (destruct Hine' as [<-|Hine']; [now apply S1|now apply S3]).
      pose proof (end_before_start K cmp _ _ Hle Hes Hes') as Hlt.
      destruct (Hpre e Hine) as [_ Hk]. rewrite Hes, Hei in Hk.
      assert (Hk' : e_key e' = t_min (tgt j')).
      { destruct Hine' as [<-|Hine'].
        - rewrite Hes' in Hkey. fold f in Hei'. now rewrite <- Hei'.
        - destruct (Hpost e' Hine') as [_ Hk']. now rewrite Hes', Hei' in Hk'. }
      now rewrite Hk, Hk' in Hlt. }
    unfold Refine.step. fold f. destruct (e_start ev) eqn:Est.
    - (* a start event *)
      destruct (Hst eq_refl) as [Hfs Hfe]. fold f in Hfs, Hfe.
      assert (HU : Upfact pre s (Some (e_key ev))).
      { intros j Hj Hs. destruct (not_started_later _ _ _ _ E Hj Hs) as [e' [Hine' [Hes' Hei']]].
        destruct Hine' as [<-|Hine'].
        - fold f in Hei'. rewrite <- Hei', Hkey. rewrite (cmp_refl K cmp cmp_opp). lia.
        - destruct (Hpost e' Hine') as [_ Hk']. rewrite Hes', Hei' in Hk'. rewrite <- Hk'.
          apply (ev_le_key K cmp). now apply S2. }
      destruct (resolve_inv pre s pc (Some (e_key ev)) HI HEF HU Hpre) as [pc1 [HI1 [Hl1 Ha1]]].
      set (s1 := resolve_lone s (Some (e_key ev))) in *.
      assert (Hnin : ~ In f (s_active s1)).
      { intros Hin. apply (i_act _ _ _ HI1) in Hin. destruct Hin as [_ [Hin _]]. congruence. }
      assert (Hadd : add_active (s_active s1) f = s_active s1 ++ [f]).
      { unfold add_active. destruct (existsb (Nat.eqb f) (s_active s1)) eqn:Eex; [|reflexivity].
        exfalso. apply existsb_exists in Eex. destruct Eex as [x [Hx Efx]]. apply Nat.eqb_eq in Efx. subst x. auto. }
      rewrite Hadd. exists pc1.
      assert (Hsb : forall j, startedb j (pre ++ [ev]) = startedb j pre || (f =? j)%nat).
      { intros j. rewrite startedb_snoc, Est. reflexivity. }
      assert (Heb : forall j, endedb j (pre ++ [ev]) = endedb j pre).
      { intros j. rewrite endedb_snoc, Est. cbn. apply orb_false_r. }
      assert (Hcommon : forall lone' leftk',
                (lone' = None \/ (lone' = Some f /\ leftk' = None /\ s_active s1 = [])) ->
                Inv (pre ++ [ev]) (mkState K (s_plan s1) (s_region s1) (s_cursors s1) (s_active s1 ++ [f])
                                           (s_sliced s1) lone' leftk') pc1).
      { intros lone' leftk' Hlone.
        constructor; unfold cursor; cbn [s_plan s_region s_cursors s_active s_sliced s_lone s_leftk].
        - exact (i_len _ _ _ HI1).
        - exact (i_le _ _ _ HI1).
        - apply (Permutation_NoDup (l := f :: s_active s1)); [apply Permutation_cons_append|].
          constructor; [exact Hnin|exact (i_nodup _ _ _ HI1)].
        - intros j. rewrite Hsb, Heb, in_app_iff, (i_act _ _ _ HI1 j). cbn [In].
          rewrite orb_true_iff, Nat.eqb_eq. split.
          + intros [[H1 [H2 H3]]|[<-|[]]]; [auto|]. repeat split; auto.
          + intros [H1 [[H2|H2] H3]]; [left; auto|right; left; exact H2].
        - intros j Hj Hs. rewrite Hsb in Hs. apply orb_false_iff in Hs. destruct Hs as [Hs _].
          exact (i_c0 _ _ _ HI1 j Hj Hs).
        - intros j Hj He. rewrite Heb in He. exact (i_cN _ _ _ HI1 j Hj He).
        - intros i Hi. destruct Hlone as [->|[-> [-> Hnil]]]; [discriminate|]. inversion Hi; subst i.
          rewrite Hnil. split; [reflexivity|]. unfold lone_low. cbn [s_leftk]. unfold cursor. cbn [s_cursors].
          split; [exact (i_c0 _ _ _ HI1 f Hf Hfs)|].
          intros e He Hes. apply in_app_or in He. destruct He as [He|[<-|[]]]; [|congruence].
          rewrite <- Hkey. apply (end_before_start K cmp); auto.
        - exact (i_plan _ _ _ HI1).
        - exact (i_clean _ _ _ HI1).
        - exact (i_reg_nodup _ _ _ HI1).
        - intros p Hp. rewrite Heb. exact (i_reg _ _ _ HI1 p Hp).
        - exact (i_reg_out _ _ _ HI1). }
      destruct (Nat.eqb_spec (length (s_active s1 ++ [f])) 1) as [Hone|_].
      + apply Hcommon. right. repeat split. rewrite app_length in Hone. cbn in Hone.
        destruct (s_active s1); [reflexivity|cbn in Hone; lia].
      + apply Hcommon. left. exact Hl1.
    - (* an end event *)
      destruct (Hen eq_refl) as [Hfs Hfe]. fold f in Hfs, Hfe.
      assert (Hfact : In f (s_active s)) by (apply (i_act _ _ _ HI); auto).
      assert (Hs1 : exists pc1, Inv pre (match s_lone s with
                                          | Some l => if (l =? f)%nat then resolve_lone s None else s
                                          | None => s
                                          end) pc1 /\
                    s_lone (match s_lone s with
                            | Some l => if (l =? f)%nat then resolve_lone s None else s
                            | None => s
                            end) = None /\
                    s_active (match s_lone s with
                              | Some l => if (l =? f)%nat then resolve_lone s None else s
                              | None => s
                              end) = s_active s).
      { destruct (s_lone s) as [l|] eqn:El; [|exists pc; auto].
        destruct (i_lone _ _ _ HI l El) as [Hact _]. rewrite Hact in Hfact. destruct Hfact as [->|[]].
        rewrite Nat.eqb_refl. apply (resolve_inv pre s pc None HI HEF); [|exact Hpre].
        intros i Hi j Hj Hs. rewrite El in Hi. inversion Hi; subst i.
        destruct (not_started_later _ _ _ _ E Hj Hs) as [e' [Hine' [Hes' Hei']]].
        destruct Hine' as [<-|Hine']; [congruence|].
        destruct (Hpost e' Hine') as [_ Hk']. rewrite Hes', Hei' in Hk'. rewrite <- Hk'.
        rewrite <- Hkey. apply (end_before_start K cmp); auto. }
      set (s1 := match s_lone s with
                 | Some l => if (l =? f)%nat then resolve_lone s None else s
                 | None => s
                 end) in *.
      destruct Hs1 as [pc1 [HI1 [Hl1 Ha1]]]. exists pc1.
      assert (Hkeys : forall e, In e pre -> cmp (e_key e) (e_key ev) <= 0).
      { intros e He. apply (ev_le_key K cmp). now apply S1. }
      pose proof (i_len _ _ _ HI1) as Hlen.
      unfold Refine.remainder. fold f. rewrite Hl1.
      destruct (Nat.leb_spec (nrows f) (cur s1 f)) as [Hfull|Hpart].
      + (* nothing left of the target *)
        assert (Hceq : cur s1 f = nrows f) by (pose proof (i_le _ _ _ HI1 f Hf); lia).
        assert (Hcur : forall j, nth j (s_cursors s1) 0%nat = if (j =? f)%nat then nrows f else cur s1 j).
        { intros j. destruct (Nat.eqb_spec j f) as [->|_]; [exact Hceq|reflexivity]. }
        destruct (del_active (s_active s1) f) as [|l [|l2 rest]] eqn:Edel.
        * rewrite <- Edel. apply end_build; auto.
        * rewrite <- Edel. apply end_build; auto. right. exists l. auto.
        * rewrite <- Edel. apply end_build; auto.
      + assert (Hcur : forall j, nth j (upd (s_cursors s1) f (nrows f)) 0%nat = if (j =? f)%nat then nrows f else cur s1 j).
        { intros j. rewrite nth_upd_cases by lia. reflexivity. }
        assert (Hlen' : length (upd (s_cursors s1) f (nrows f)) = k) by (now rewrite upd_length).
        destruct (del_active (s_active s1) f) as [|l [|l2 rest]] eqn:Edel.
        * rewrite <- Edel. apply end_build; auto.
        * rewrite <- Edel. apply end_build; auto. right. exists l. auto.
        * rewrite <- Edel. apply end_build; auto.
  Qed.

  Lemma sweep_inv post : forall pre s pc, evs = pre ++ post -> Inv pre s pc ->
    exists pc', Inv evs (fold_left step post s) pc'.
  Proof.
    induction post as [|ev post IH]; intros pre s pc E HI; cbn [fold_left].
    - rewrite app_nil_r in E. rewrite E. eauto.
    - destruct (step_inv pre ev post s pc E HI) as [pc1 HI1].
      apply (IH (pre ++ [ev]) _ pc1); [|exact HI1]. now rewrite <- app_assoc.
  Qed.

  Lemma nth_repeat0 n j : nth j (repeat 0%nat n) 0%nat = 0%nat.
  Proof. revert j; induction n as [|n IH]; intros [|j]; cbn; auto. Qed.

  Lemma smerge_all_nil (l : list nat) : smerge (map (fun _ => @nil row) l) = [].
  Proof. induction l as [|x l IH]; [reflexivity|]. cbn [map]. change (smerge ([] :: ?st)) with (smerge st). exact IH. Qed.

  Lemma init_inv : Inv [] (init_state K ts) (fun _ => 0%nat).
  Proof.
    constructor; unfold cursor; cbn [init_state s_plan s_region s_cursors s_active s_sliced s_lone s_leftk].
    - apply repeat_length.
    - intros j Hj. rewrite nth_repeat0. lia.
    - constructor.
    - intros j. split; [intros []|]. intros [_ [H _]]. discriminate.
    - intros j _ _. apply nth_repeat0.
    - intros j _ H. discriminate.
    - intros i H. discriminate.
    - assert (Et : takev (fun _ => 0%nat) = map (fun _ => []) (List.seq 0 k)) by reflexivity.
      split.
      + rewrite Et, smerge_all_nil. reflexivity.
      + intros outs Hf. inversion Hf; subst. exists (takev (fun _ => 0%nat)). split; [constructor|].
        rewrite Et. unfold all_empty. rewrite Forall_forall. intros l Hl. apply in_map_iff in Hl.
        now destruct Hl as [? [<- _]].
    - intros i j a b _ _ _ Ha. cbn in Ha. contradiction.
    - constructor.
    - intros p [].
    - intros j _ _. now rewrite nth_repeat0.
  Qed.

  (** ** the theorems *)
  Theorem refine_plan_sem plan :
    refine_segment K cmp V col0 cmp0 true thr ts dk = Some plan ->
    plan_rows plan = smerge (map (@t_rows K) ts) /\
    forall outs, Forall2 piece_run plan outs ->
      exists E, sched cmp (map (@t_rows K) ts) (concat outs) E /\ all_empty K E.
  Proof.
    unfold refine_segment. destruct (k <? 2)%nat; [discriminate|].
    unfold sweep_events. change (sorted_events K cmp ts) with evs.
    destruct (sweep_inv evs [] (init_state K ts) (fun _ => 0%nat) eq_refl init_inv) as [pc HI].
    set (s := fold_left step evs (init_state K ts)) in *.
    destruct (s_sliced s); [|discriminate]. intros H. inversion H; subst plan. clear H.
    assert (Hall : forall j, (j < k)%nat -> cur s j = nrows j).
    { intros j Hj. apply (i_cN _ _ _ HI j Hj). now destruct (evs_all_started K cmp ts dk j Hj). }
    assert (Hreg : RegOK (s_region s) pc (fun j => cur s j)).
    { split; [exact (i_reg_nodup _ _ _ HI)|split].
      - intros p Hp. destruct (i_reg _ _ _ HI p Hp) as [R1 [R2 [R3 _]]]. auto.
      - exact (i_reg_out _ _ _ HI). }
    assert (Hle : forall j, (j < k)%nat -> (pc j <= cur s j)%nat) by (intros j Hj; apply (i_le _ _ _ HI j Hj)).
    pose proof (close_sem _ _ _ _ (i_plan _ _ _ HI) (i_clean _ _ _ HI) Hreg Hle) as [Hrows Hrun].
    rewrite (takev_all (fun j => cur s j) Hall) in Hrows, Hrun. split; assumption.
  Qed.


  (** the refined plan delivers exactly the rows of the merge of the whole
      segment, in the same order, ties included (on equal keys the row of the
      row group that comes first in the segment goes first) *)
  Theorem refine_plan_equiv plan :
    refine_segment K cmp V col0 cmp0 true thr ts dk = Some plan ->
    plan_rows plan = segment_rows cmp ts.
  Proof. intros H. exact (proj1 (refine_plan_sem plan H)). Qed.

  (** whatever valid merge reads the regions (each [out] is a complete run of
      the abstract scheduler on the participants of its piece; a single part is
      read as it is), the concatenation is a complete run of the abstract
      scheduler on the whole segment *)
  Theorem refine_plan_sched plan outs :
    refine_segment K cmp V col0 cmp0 true thr ts dk = Some plan ->
    Forall2 piece_run plan outs ->
    exists E, sched cmp (map (@t_rows K) ts) (concat outs) E /\ all_empty K E.
  Proof. intros H. exact (proj2 (refine_plan_sem plan H) outs). Qed.

  (* the rows of the plan as the model computes them are such a run *)
  Lemma piece_rows_run pc : (forall p, In p pc -> (p_idx p < k)%nat) -> piece_run pc (piece_rows pc).
  Proof.
    intros Hp. rewrite piece_rows_smerge. apply (smerge_sched K cmp cmp_opp cmp_trans).
    rewrite Forall_forall. intros l Hl. apply in_map_iff in Hl. destruct Hl as [p [<- Hin]].
    unfold Refine.part_rows. apply (sorted_firstn K cmp). apply (sorted_skipn K cmp).
    destruct (ts_ok _ (Hp p Hin)) as [Hs _]. exact Hs.
  Qed.

End RefineProofs.

(** ** the instance: keys are tuples of optional integers; the value of the
    first sorting column orders the keys strictly *)
From PQ Require Import Merge.Instance Merge.InstanceProofs.

Lemma col0L_strict cf cfg a b :
  cmp0L (cf :: cfg) (col0L a) (col0L b) < 0 -> cmpL (cf :: cfg) a b < 0.
Proof.
  unfold cmp0L, col0L. cbn [hd cmpL]. intros H.
  destruct (Z.eqb_spec (cmp_col cf (hd None a) (hd None b)) 0); lia.
Qed.

Theorem refine_plan_equiv_keys cf cfg thr (ts : list (target keyL)) plan :
  (forall j, (j < length ts)%nat -> target_ok keyL (cmpL (cf :: cfg)) (tgt keyL ts [] j)) ->
  refine_segment keyL (cmpL (cf :: cfg)) (option Z) col0L (cmp0L (cf :: cfg)) true thr ts [] = Some plan ->
  refined_rows keyL (cmpL (cf :: cfg)) ts [] plan = segment_rows (cmpL (cf :: cfg)) ts.
Proof.
  intros Hok. apply (refine_plan_equiv keyL (cmpL (cf :: cfg)) (option Z) col0L (cmp0L (cf :: cfg))
    (cmpL_opp _) (cmpL_trans _) (cmp_col_opp cf) (cmp_col_trans cf) (col0L_strict cf cfg) thr ts [] Hok).
Qed.
