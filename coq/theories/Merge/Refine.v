(** Model of merge_refine.go: newCutLookups (cutAbove / cutBelow over the page
    index of the first sorting column), refineSegment (the sweep over the
    start / end events of the row groups of an overlapping segment that slices
    the lone stretches off as row-range views) and the rows the refined plan
    delivers.  Executable; no proofs here (Merge/RefineProofs.v).

    Rows are [Model.row] (sort key, input, position).  The sort key is abstract
    ([K], compared by [cmp] as mergedCompare does); the value of the first
    sorting column of a key is [col0 k : V] (Go: key[columnIndex]), compared by
    [cmp0] (Go: orderCompare = compareValues(a, b, columnType, descending)). *)
From Coq Require Import List ZArith Bool Arith Lia.
From PQ Require Import Generated.Consts Merge.Model Merge.Instance.
Import ListNotations.
Open Scope Z_scope.

(** ** slices.SortStableFunc

    The result of a stable sort is determined by the comparison (a weak
    order); it is computed here by insertion: [x], which preceded every
    element of [l], goes before the first element that is not strictly less. *)
Section StableSort.
  Variable A : Type.
  Variable cmpf : A -> A -> Z.

  Fixpoint sinsert (x : A) (l : list A) : list A :=
    match l with
    | [] => [x]
    | y :: t => if cmpf y x <? 0 then y :: sinsert x t else x :: y :: t
    end.

  Definition ssort (l : list A) : list A := fold_right sinsert [] l.
End StableSort.
Arguments sinsert {A}.
Arguments ssort {A}.

(** ** sort.Search(n, f)

    i, j := 0, n; for i < j { h := int(uint(i+j) >> 1); if !f(h) { i = h + 1 } else { j = h } }; return i *)
Fixpoint search_loop (fuel : nat) (f : nat -> bool) (i j : nat) : nat :=
  match fuel with
  | O => i
  | S fu =>
      if (i <? j)%nat then
        let h := ((i + j) / 2)%nat in
        if f h then search_loop fu f i h else search_loop fu f (h + 1)%nat j
      else i
  end.

Definition search (n : nat) (f : nat -> bool) : nat := search_loop (S n) f 0%nat n.

Section Refine.
  Variable K : Type.
  Variable cmp : K -> K -> Z.
  Variable V : Type.
  Variable col0 : K -> V.
  Variable cmp0 : V -> V -> Z.

  Notation row := (row K).

  (** ** the stable merge: the reference for the rows of a merged region and
      of the unrefined segment.  Two-way: on equal keys the row of the left
      list goes first; k-way: the lists are merged from the right, so on equal
      keys the row of the list with the smallest position goes first. *)
  Fixpoint merge2s (a : list row) : list row -> list row :=
    match a with
    | [] => fun b => b
    | x :: a' =>
        fix inner (b : list row) : list row :=
          match b with
          | [] => x :: a'
          | y :: b' => if rcmp cmp y x <? 0 then y :: inner b' else x :: merge2s a' b
          end
    end.

  Definition smerge (st : list (list row)) : list row := fold_right merge2s [] st.

  (** ** refineTarget

      [t_pages]: the rows of the row group in order, cut at the page
      boundaries of the first sorting column (oi.FirstRowIndex); [t_min],
      [t_max]: minRow, maxRow; [t_cuts]: cutAbove and cutBelow are not nil. *)
  Record target := mkTarget {
    t_pages : list (list row); t_min : K; t_max : K; t_cuts : bool }.

  Definition t_rows (t : target) : list row := concat (t_pages t).
  Definition num_rows (t : target) : nat := length (t_rows t).
  Definition no_target (d : K) : target := mkTarget [] d d false.

  (** ** newCutLookups *)

  (* ci.MinValue(p) / ci.MaxValue(p), exchanged when descending: the extreme
     values of the page in the order of [cmp0] *)
  Definition min0 (a b : V) : V := if cmp0 b a <? 0 then b else a.
  Definition max0 (a b : V) : V := if cmp0 b a >? 0 then b else a.

  Definition page_earliest (pg : list row) : option V :=
    match pg with
    | [] => None
    | r :: t => Some (fold_left (fun m x => min0 m (col0 (key x))) t (col0 (key r)))
    end.
  Definition page_latest (pg : list row) : option V :=
    match pg with
    | [] => None
    | r :: t => Some (fold_left (fun m x => max0 m (col0 (key x))) t (col0 (key r)))
    end.

  Definition earliest (t : target) (p : nat) : option V := page_earliest (nth p (t_pages t) []).
  Definition latest (t : target) (p : nat) : option V := page_latest (nth p (t_pages t) []).

  (* oi.FirstRowIndex(p) *)
  Definition first_row_index (t : target) (p : nat) : nat := length (concat (firstn p (t_pages t))).

  (* pageEnd := func(p int) int64 { if p+1 < numPages { return oi.FirstRowIndex(p + 1) }; return numRows } *)
  Definition page_end (t : target) (p : nat) : nat :=
    if (p + 1 <? length (t_pages t))%nat then first_row_index t (p + 1) else num_rows t.

  (* cutAbove: p := sort.Search(numPages, func(p) { return orderCompare(earliest(p), kv) > 0 });
     if p == 0 { return 0 }; return pageEnd(p - 1).
     [strict = false] is the variant "orderCompare(earliest(p), kv) >= 0", kept
     for the refutation witness of Properties/C09.v. *)
  Definition cut_above_gen (strict : bool) (t : target) (k : K) : nat :=
    let kv := col0 k in
    let p := search (length (t_pages t))
               (fun p => match earliest t p with
                         | Some e => if strict then cmp0 e kv >? 0 else cmp0 e kv >=? 0
                         | None => false
                         end) in
    if (p =? 0)%nat then 0%nat else page_end t (p - 1).

  (* cutBelow: p := sort.Search(numPages, func(p) { return orderCompare(latest(p), kv) >= 0 });
     if p == numPages { return numRows }; return oi.FirstRowIndex(p) *)
  Definition cut_below (t : target) (k : K) : nat :=
    let kv := col0 k in
    let n := length (t_pages t) in
    let p := search n (fun p => match latest t p with
                                | Some e => cmp0 e kv >=? 0
                                | None => false
                                end) in
    if (p =? n)%nat then num_rows t else first_row_index t p.

  (** ** refineSegment *)

  Record event := mkEvent { e_key : K; e_start : bool; e_idx : nat }.

  (* the comparison handed to slices.SortStableFunc: by key; starts before ends *)
  Definition ev_cmp (a b : event) : Z :=
    let c := cmp (e_key a) (e_key b) in
    if negb (c =? 0) then c
    else if e_start a && negb (e_start b) then -1
    else if negb (e_start a) && e_start b then 1
    else 0.

  Fixpoint events_from (i : nat) (ts : list target) : list event :=
    match ts with
    | [] => []
    | t :: rest => mkEvent (t_min t) true i :: mkEvent (t_max t) false i :: events_from (S i) rest
    end.

  Definition sorted_events (ts : list target) : list event := ssort ev_cmp (events_from 0 ts).

  (* a participant of a region or a single-source element of the plan: rows
     [p_off, p_off + p_len) of target [p_idx] (the row group itself when the
     range is the whole of it, a row-range view otherwise) *)
  Record part := mkPart { p_idx : nat; p_off : nat; p_len : nat }.

  (* an element of the plan: one part (appended as it is) or the parts handed
     to makeMerged *)
  Definition piece := list part.

  Record state := mkState {
    s_plan : list piece;
    s_region : list part;
    s_cursors : list nat;
    s_active : list nat;       (* the set [active], without duplicates *)
    s_sliced : bool;
    s_lone : option nat;       (* pendingLone (None = -1) *)
    s_leftk : option K }.      (* pendingLeftK (None = nil) *)

  Section Sweep.
    Variable strict : bool.    (* true: the code as written *)
    Variable thr : nat.        (* minStreamedRegionRows *)
    Variable ts : list target.
    Variable dk : K.           (* only to index [ts] totally *)

    Definition tgt (i : nat) : target := nth i ts (no_target dk).
    Definition cursor (s : state) (i : nat) : nat := nth i (s_cursors s) 0%nat.

    (* closeRegion *)
    Definition close_region (plan : list piece) (region : list part) : list piece :=
      match region with
      | [] => plan
      | [p] => plan ++ [[p]]
      | _ => plan ++ [ssort (fun a b => Z.of_nat (p_idx a) - Z.of_nat (p_idx b)) region]
      end.

    (* resolveLone(rightK) *)
    Definition resolve_lone (s : state) (rightk : option K) : state :=
      match s_lone s with
      | None => s
      | Some i =>
          let s0 := mkState (s_plan s) (s_region s) (s_cursors s) (s_active s) (s_sliced s) None (s_leftk s) in
          let t := tgt i in
          if negb (t_cuts t) then s0 else
          let off := match s_leftk s with Some k => cut_above_gen strict t k | None => 0%nat end in
          let en := match rightk with Some k => cut_below t k | None => num_rows t end in
          let off := Nat.max off (cursor s i) in
          let en := Nat.min en (num_rows t) in
          (* if end-off < minStreamedRegionRows { return } *)
          if (en <? off + thr)%nat then s0 else
          let region := if (cursor s i <? off)%nat
                        then s_region s ++ [mkPart i (cursor s i) (off - cursor s i)]
                        else s_region s in
          let plan := close_region (s_plan s) region in
          mkState (plan ++ [[mkPart i off (en - off)]]) [] (upd (s_cursors s) i en)
                  (s_active s) true None (s_leftk s)
      end.

    (* remainder(i) *)
    Definition remainder (s : state) (i : nat) : option part * list nat :=
      let off := cursor s i in
      let n := num_rows (tgt i) in
      if (n <=? off)%nat then (None, s_cursors s)
      else (Some (mkPart i off (n - off)), upd (s_cursors s) i n).

    Definition add_active (a : list nat) (i : nat) : list nat :=
      if existsb (Nat.eqb i) a then a else a ++ [i].
    Definition del_active (a : list nat) (i : nat) : list nat :=
      filter (fun j => negb (Nat.eqb j i)) a.

    (* the body of "for _, ev := range events" *)
    Definition step (s : state) (ev : event) : state :=
      if e_start ev then
        let s1 := resolve_lone s (Some (e_key ev)) in
        let act := add_active (s_active s1) (e_idx ev) in
        if (length act =? 1)%nat
        then mkState (s_plan s1) (s_region s1) (s_cursors s1) act (s_sliced s1) (Some (e_idx ev)) None
        else mkState (s_plan s1) (s_region s1) (s_cursors s1) act (s_sliced s1) (s_lone s1) (s_leftk s1)
      else
        let s1 := match s_lone s with
                  | Some l => if (l =? e_idx ev)%nat then resolve_lone s None else s
                  | None => s
                  end in
        let act := del_active (s_active s1) (e_idx ev) in
        let '(r, cursors) := remainder s1 (e_idx ev) in
        let region := match r with Some p => s_region s1 ++ [p] | None => s_region s1 end in
        match act, s_lone s1 with
        | [l], None => mkState (s_plan s1) region cursors act (s_sliced s1) (Some l) (Some (e_key ev))
        | _, _ => mkState (s_plan s1) region cursors act (s_sliced s1) (s_lone s1) (s_leftk s1)
        end.

    Definition init_state : state :=
      mkState [] [] (repeat 0%nat (length ts)) [] false None None.

    Definition sweep_events (evs : list event) : state := fold_left step evs init_state.

    (* refineSegment: None = nil (no refinement applies) *)
    Definition refine_segment : option (list piece) :=
      if (length ts <? 2)%nat then None else
      let s := sweep_events (sorted_events ts) in
      if s_sliced s then Some (close_region (s_plan s) (s_region s)) else None.

    (** the rows of the plan *)
    Definition part_rows (p : part) : list row :=
      firstn (p_len p) (skipn (p_off p) (t_rows (tgt (p_idx p)))).

    (* a single part is read as it is; several are merged *)
    Definition piece_rows (pc : piece) : list row :=
      match pc with
      | [p] => part_rows p
      | _ => smerge (map part_rows pc)
      end.

    Definition refined_rows (plan : list piece) : list row := flat_map piece_rows plan.
  End Sweep.

  (* the unrefined merge of the segment *)
  Definition segment_rows (ts : list target) : list row := smerge (map t_rows ts).
End Refine.

Arguments merge2s {K}.
Arguments smerge {K}.
Arguments mkTarget {K}.
Arguments t_pages {K}.
Arguments t_min {K}.
Arguments t_max {K}.
Arguments t_cuts {K}.
Arguments t_rows {K}.
Arguments num_rows {K}.
Arguments mkEvent {K}.
Arguments e_key {K}.
Arguments e_start {K}.
Arguments e_idx {K}.
Arguments s_plan {K}.
Arguments s_region {K}.
Arguments s_cursors {K}.
Arguments s_active {K}.
Arguments s_sliced {K}.
Arguments s_lone {K}.
Arguments s_leftk {K}.
Arguments segment_rows {K}.

(** ** the instance of the oracle: keys are tuples of optional integers

    [layouts]: for every input, for every sorting column, the number of rows
    of each page of the column chunk (what its offset index says); [cuts]:
    for every input, whether the page index of the first sorting column
    supports the cut lookups. *)
Fixpoint split_pages {A : Type} (sizes : list nat) (l : list A) : list (list A) :=
  match sizes with
  | [] => match l with [] => [] | _ => [l] end
  | n :: t => firstn n l :: split_pages t (skipn n l)
  end.

Definition col0L (k : keyL) : option Z := hd None k.
Definition cmp0L (cfg : list colcfg) : option Z -> option Z -> Z := cmp_col (hd (false, false) cfg).

(* rowGroupRangeOfSortedColumns over explicit page layouts *)
Fixpoint bounds_cols_l (cfg : list colcfg) (j : nat) (layout : list (list nat)) (rows : list keyL)
  : option (keyL * keyL) :=
  match cfg with
  | [] => Some ([], [])
  | cf :: cfg' =>
      match column_bounds false cf (split_pages (nth j layout []) (column j rows)) with
      | None => None
      | Some (lo, hi) =>
          match bounds_cols_l cfg' (S j) layout rows with
          | None => None
          | Some (los, his) => Some (Some lo :: los, Some hi :: his)
          end
      end
  end.

Fixpoint collect_ranges_l (cfg : list colcfg) (i : nat) (ins : list (list keyL)) (layouts : list (list (list nat)))
  : option (list (range keyL)) :=
  match ins with
  | [] => Some []
  | rows :: t =>
      match rows with
      | [] => collect_ranges_l cfg (S i) t (tl layouts)
      | _ =>
          match bounds_cols_l cfg 0 (hd [] layouts) rows with
          | None => None
          | Some (lo, hi) =>
              match collect_ranges_l cfg (S i) t (tl layouts) with
              | None => None
              | Some rs => Some (mkRange i lo hi :: rs)
              end
          end
      end
  end.

Definition target_of (ins : list (list keyL)) (layouts : list (list (list nat))) (cuts : list bool)
           (rg : range keyL) : target keyL :=
  let i := r_id rg in
  mkTarget (split_pages (nth 0 (nth i layouts []) []) (tag i (nth i ins []))) (r_min rg) (r_max rg) (nth i cuts false).

(* the plan of MergeRowGroups (without DropDuplicatedRows): the elements of
   rowGroupSegments, each as its parts (input, offset, rows); parts without
   rows are left out *)
Definition c09_refine_gen (strict : bool) (thr : nat) (cfg : list colcfg) (ins : list (list keyL))
           (layouts : list (list (list nat))) (cuts : list bool) : list (list (nat * nat * nat)) :=
  let whole := fun i => (i, 0%nat, length (nth i ins [])) in
  let clean := fun pc : list (nat * nat * nat) => filter (fun x => negb (snd x =? 0)%nat) pc in
  let pieces :=
    match collect_ranges_l cfg 0 ins layouts with
    | None => [map whole (List.seq 0 (length ins))]
    | Some rs =>
        flat_map (fun seg : list (range keyL) =>
          let ids := map (@r_id keyL) seg in
          let ts := map (target_of ins layouts cuts) seg in
          match refine_segment keyL (cmpL cfg) (option Z) col0L (cmp0L cfg) strict thr ts [] with
          | Some plan =>
              map (map (fun p => (nth (p_idx p) ids 0%nat, p_off p, p_len p))) plan
          | None => [map whole ids]
          end) (segments (cmpL cfg) rs)
    end in
  filter (fun pc => match pc with [] => false | _ => true end) (map clean pieces).

Definition c09_refine (cfg : list colcfg) (ins : list (list keyL))
           (layouts : list (list (list nat))) (cuts : list bool) : list (list (nat * nat * nat)) :=
  c09_refine_gen true (Z.to_nat go_parquet_minStreamedRegionRows) cfg ins layouts cuts.
