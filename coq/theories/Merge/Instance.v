(** Instances of the merge model used by the extracted oracle and by the
    concrete theorems: keys are tuples of optional integers (one per sorting
    column) ordered as compareRowsFuncOfColumnValues does (compare.go:424):
    lexicographically, each column by the integer order, reversed when the
    column is Descending, nulls first or last (the null wrapper is outermost,
    so the null order does not depend on the direction).  Also the model of
    rowGroupRangeOfSortedColumns and of the unrefined plan of MergeRowGroups. *)
From Coq Require Import List ZArith Bool Arith Lia.
From PQ Require Import Merge.Model.
Import ListNotations.
Open Scope Z_scope.

Definition cmpZ (a b : Z) : Z :=
  match Z.compare a b with Lt => -1 | Eq => 0 | Gt => 1 end.

(* one sorting column: (descending, nulls first) *)
Definition colcfg := (bool * bool)%type.
Definition keyL := list (option Z).

Definition cmp_col (cf : colcfg) (a b : option Z) : Z :=
  let '(desc, nf) := cf in
  match a, b with
  | None, None => 0
  | None, Some _ => if nf then -1 else 1
  | Some _, None => if nf then 1 else -1
  | Some x, Some y => if desc then - cmpZ x y else cmpZ x y
  end.

Fixpoint cmpL (cfg : list colcfg) (a b : keyL) : Z :=
  match cfg with
  | [] => 0
  | cf :: cfg' =>
      let c := cmp_col cf (hd None a) (hd None b) in
      if c =? 0 then cmpL cfg' (tl a) (tl b) else c
  end.

(* single required ascending integer key *)
Definition cmpZ_nulls_last (a b : option Z) : Z := cmp_col (false, false) a b.

(** rows of input [i] from its keys *)
Fixpoint tag_from {K : Type} (i s : nat) (keys : list K) : list (row K) :=
  match keys with
  | [] => []
  | k :: t => mkRow k i s :: tag_from i (S s) t
  end.
Definition tag {K : Type} (i : nat) (keys : list K) : list (row K) := tag_from i 0 keys.

Fixpoint tag_all_from {K : Type} (i : nat) (ins : list (list K)) : list (list (row K)) :=
  match ins with
  | [] => []
  | l :: t => tag i l :: tag_all_from (S i) t
  end.
Definition tag_all {K : Type} (ins : list (list K)) : list (list (row K)) := tag_all_from 0 ins.

Definition ids {K : Type} (l : list (row K)) : list (nat * nat) := map (fun r => (input r, seq r)) l.

(** oracle entry points *)
Definition c09_merge2 (cfg : list colcfg) (ch0 ch1 batches : list nat) (in0 in1 : list keyL)
  : list (list (nat * nat)) * bool :=
  let '(outs, eof, _) := merge2 (cmpL cfg) (tag 0 in0) (tag 1 in1) ch0 ch1 batches in
  (map ids outs, eof).

Definition c09_mergek (cfg : list colcfg) (chunks : list (list nat)) (batches : list nat)
           (ins : list (list keyL)) : list (list (nat * nat)) * bool :=
  let '(outs, eof, _) := mergek (cmpL cfg) (tag_all ins) chunks batches in
  (map ids outs, eof).

(* batches of one reader (input 0, seq = position in the whole sequence) *)
Fixpoint tag_batches (s : nat) (bs : list (list keyL)) : list (list (row keyL)) :=
  match bs with
  | [] => []
  | b :: t => tag_from 0 s b :: tag_batches (s + length b) t
  end.

Definition c09_dedupe (cfg : list colcfg) (bs : list (list keyL)) : list (list nat) :=
  map (map (@seq keyL)) (dedupe_batches (cmpL cfg) None (tag_batches 0 bs)).

(** ** rowGroupRangeOfSortedColumns (merge.go:216)

    The values of one sorting column of a row group, page by page.  The page
    statistics describe the non-null values only. *)
Definition somes (l : list (option Z)) : list Z :=
  flat_map (fun o => match o with Some v => [v] | None => [] end) l.

Definition page_min (p : list (option Z)) : option Z :=
  match somes p with [] => None | v :: t => Some (fold_left Z.min t v) end.
Definition page_max (p : list (option Z)) : option Z :=
  match somes p with [] => None | v :: t => Some (fold_left Z.max t v) end.
Definition has_null (p : list (option Z)) : bool := existsb (fun o => match o with None => true | _ => false end) p.

(* first non-null page (NullPage = no non-null value) *)
Fixpoint first_some {A : Type} (f : list (option Z) -> option A) (pages : list (list (option Z))) : option A :=
  match pages with
  | [] => None
  | p :: t => match f p with Some v => Some v | None => first_some f t end
  end.

(* bounds of one column in sort order; [pinned] = the code before commit
   77fc8c6, which did not look at null counts *)
Definition column_bounds (pinned : bool) (cf : colcfg) (pages : list (list (option Z))) : option (Z * Z) :=
  let desc := fst cf in
  if negb pinned && existsb has_null pages then None else
  match first_some (if desc then page_max else page_min) pages,
        first_some (if desc then page_min else page_max) (rev pages) with
  | Some lo, Some hi => Some (lo, hi)
  | _, _ => None
  end.

(* pages of [n] rows (n = 0: a single page, as for an in-memory Buffer) *)
Fixpoint paginate_aux {A : Type} (fuel n : nat) (l : list A) : list (list A) :=
  match fuel, l with
  | _, [] => []
  | O, _ => [l]
  | S f, _ => firstn n l :: paginate_aux f n (skipn n l)
  end.
Definition paginate {A : Type} (n : nat) (l : list A) : list (list A) :=
  match n, l with
  | _, [] => []
  | O, _ => [l]
  | _, _ => paginate_aux (length l) n l
  end.

(* the column j of the keys of a row group *)
Definition column (j : nat) (rows : list keyL) : list (option Z) := map (fun k => nth j k None) rows.

Fixpoint bounds_cols (pinned : bool) (cfg : list colcfg) (j page_rows : nat) (rows : list keyL)
  : option (keyL * keyL) :=
  match cfg with
  | [] => Some ([], [])
  | cf :: cfg' =>
      match column_bounds pinned cf (paginate page_rows (column j rows)) with
      | None => None
      | Some (lo, hi) =>
          match bounds_cols pinned cfg' (S j) page_rows rows with
          | None => None
          | Some (los, his) => Some (Some lo :: los, Some hi :: his)
          end
      end
  end.

Definition row_group_bounds (pinned : bool) (cfg : list colcfg) (page_rows : nat) (rows : list keyL) :=
  bounds_cols pinned cfg 0 page_rows rows.

(** ** the unrefined plan of MergeRowGroups (merge.go:96-140)

    [plan_segments]: the input ids of each segment.  Empty row groups are
    skipped; when the bounds of a row group are unavailable every row group
    (the empty ones included) goes into a single segment, in argument order. *)
Fixpoint collect_ranges (pinned : bool) (cfg : list colcfg) (page_rows i : nat) (ins : list (list keyL))
  : option (list (range keyL)) :=
  match ins with
  | [] => Some []
  | rows :: t =>
      match rows with
      | [] => collect_ranges pinned cfg page_rows (S i) t
      | _ =>
          match row_group_bounds pinned cfg page_rows rows with
          | None => None
          | Some (lo, hi) =>
              match collect_ranges pinned cfg page_rows (S i) t with
              | None => None
              | Some rs => Some (mkRange i lo hi :: rs)
              end
          end
      end
  end.

Definition plan_segments (pinned : bool) (cfg : list colcfg) (page_rows : nat) (ins : list (list keyL))
  : list (list nat) :=
  match collect_ranges pinned cfg page_rows 0 ins with
  | None => [List.seq 0 (length ins)]
  | Some rs => map (map (@r_id keyL)) (segments (cmpL cfg) rs)
  end.

(* the rows a merged reader over [ins] delivers when read with slices of
   [batch] rows from sources that fill the slice they are given *)
Definition merge_flat (cfg : list colcfg) (batch : nat) (ins : list (list (row keyL))) : list (row keyL) :=
  let n := length (concat ins) in
  let batches := repeat batch (n + 2) in
  match ins with
  | [] => []
  | [a] => a
  | [a; b] => concat (fst (fst (merge2 (cmpL cfg) a b [] [] batches)))
  | _ => concat (fst (fst (mergek (cmpL cfg) ins [] batches)))
  end.

Definition plan_rows (pinned : bool) (cfg : list colcfg) (page_rows batch : nat) (dedupe : bool)
           (ins : list (list keyL)) : list (row keyL) :=
  let tagged := tag_all ins in
  let segs := plan_segments pinned cfg page_rows ins in
  let rows := flat_map (fun seg => merge_flat cfg batch (map (fun i => nth i tagged []) seg)) segs in
  if dedupe then dedupe_spec (cmpL cfg) rows else rows.

Definition c09_plan (pinned : bool) (cfg : list colcfg) (page_rows batch : nat) (dedupe : bool)
           (ins : list (list keyL)) : list (nat * nat) :=
  ids (plan_rows pinned cfg page_rows batch dedupe ins).

Definition c09_segments (cfg : list colcfg) (page_rows : nat) (ins : list (list keyL)) : list (list nat) :=
  plan_segments false cfg page_rows ins.

(* sortedness of a key sequence, executable (used by the refutation witness) *)
Fixpoint sortedb (cfg : list colcfg) (l : list keyL) : bool :=
  match l with
  | a :: ((b :: _) as t) => (cmpL cfg a b <=? 0) && sortedb cfg t
  | _ => true
  end.
