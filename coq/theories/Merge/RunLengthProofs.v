(** runLength (merge.go:1033): on a sorted window the galloping search returns
    the length of the longest prefix whose rows compare <= max against the
    bound (max = 0: ties included, max = -1: ties excluded). *)
From Coq Require Import List ZArith Bool Arith Lia Sorting.Sorted.
From PQ Require Import Merge.Model Merge.AbstractProofs.
Import ListNotations.
Open Scope Z_scope.

Section RunLength.
  Variable K : Type.
  Variable cmp : K -> K -> Z.
  Hypothesis cmp_opp : forall a b, cmp a b < 0 <-> cmp b a > 0.
  Hypothesis cmp_trans : forall a b d, cmp a b <= 0 -> cmp b d <= 0 -> cmp a d <= 0.

  Notation row := (row K).
  Notation rcmp := (rcmp cmp).
  Notation sorted := (sorted K cmp).
  Notation qual := (qual cmp).

  Variable w : list row.
  Variable bound : row.
  Variable mx : Z.
  Hypothesis mx_ok : mx = 0 \/ mx = -1.

  Definition qualifies (r : row) : bool := rcmp r bound <=? mx.

  Lemma qual_lt i : qual w bound mx i = true -> (i < length w)%nat.
  Proof.
    unfold Model.qual. destruct (nth_error w i) eqn:E; [|discriminate].
    intros _. apply nth_error_Some. congruence.
  Qed.

  (* the qualifying rows of a sorted window form a prefix *)
  Lemma qual_mono i j : sorted w -> (i <= j)%nat ->
    qual w bound mx j = true -> qual w bound mx i = true.
  Proof.
    intros Hs Hij Hj. pose proof (qual_lt _ Hj) as Hlt. unfold Model.qual in *.
    destruct (nth_error w j) as [b|] eqn:Ej; [|discriminate].
    destruct (nth_error w i) as [a|] eqn:Ei; [|apply nth_error_None in Ei; lia].
    pose proof (sorted_nth_le K cmp cmp_opp w i j a b Hs Hij Ei Ej) as Hab.
    unfold rle, Model.rcmp in *. apply Z.leb_le in Hj. apply Z.leb_le.
    destruct mx_ok as [-> | ->].
    - eapply cmp_trans; eauto.
    - assert (cmp (key a) (key bound) < 0); [|lia].
      eapply cmp_le_lt_trans; eauto. lia.
  Qed.

  Lemma gallop_spec f : forall lo hi,
    (1 <= hi)%nat -> (length w <= hi + f)%nat ->
    qual w bound mx lo = true -> (lo < hi)%nat ->
    let '(lo', hi') := gallop K cmp f w bound mx lo hi in
    qual w bound mx lo' = true /\ (lo' < hi')%nat /\
    ((hi' < length w)%nat -> qual w bound mx hi' = false).
  Proof.
    induction f as [|f IH]; intros lo hi H1 Hf Hlo Hlt; cbn [gallop].
    - repeat split; auto. lia.
    - destruct (Nat.ltb_spec hi (length w)) as [Hh|Hh]; cbn [andb].
      + destruct (qual w bound mx hi) eqn:Eq.
        * apply IH; auto; lia.
        * repeat split; auto.
      + repeat split; auto. lia.
  Qed.

  Lemma bisect_spec f : forall lo hi,
    (hi - lo <= f)%nat -> qual w bound mx lo = true -> (lo < hi)%nat -> (hi <= length w)%nat ->
    ((hi < length w)%nat -> qual w bound mx hi = false) ->
    let h := bisect K cmp f w bound mx lo hi in
    (1 <= h)%nat /\ (h <= length w)%nat /\ qual w bound mx (h - 1) = true /\
    ((h < length w)%nat -> qual w bound mx h = false).
  Proof.
    induction f as [|f IH]; intros lo hi Hf Hlo Hlt Hle Hhi; cbn [bisect].
    - lia.
    - destruct (Nat.ltb_spec (lo + 1) hi) as [Hc|Hc].
      + assert (Hmid : (lo < (lo + hi) / 2 < hi)%nat).
        { split.
          - apply Nat.div_le_lower_bound; lia.
          - apply Nat.div_lt_upper_bound; lia. }
        destruct (qual w bound mx ((lo + hi) / 2)) eqn:Eq.
        * apply IH; auto; lia.
        * apply IH; auto; try lia.
      + assert (hi = S lo) by lia. subst hi. repeat split; auto; try lia.
        replace (S lo - 1)%nat with lo by lia. exact Hlo.
  Qed.

  Lemma run_length_le : (run_length cmp w bound mx <= length w)%nat.
  Proof.
    unfold run_length.
    destruct (Nat.eqb_spec (length w) 0); cbn [orb]; [lia|].
    destruct (qual w bound mx 0) eqn:E0; cbn [negb]; [|lia].
    destruct (qual w bound mx (length w - 1)) eqn:E1; [lia|].
    pose proof (gallop_spec (length w) 0%nat 1%nat) as G.
    destruct (gallop K cmp (length w) w bound mx 0 1) as [lo hi].
    destruct G as [G1 [G2 G3]]; auto; try lia.
    pose proof (qual_lt _ G1).
    pose proof (bisect_spec (length w) lo (Nat.min hi (length w))) as B.
    cbv zeta in B. destruct B as [_ [B _]]; auto; try lia.
    intros Hm. replace (Nat.min hi (length w)) with hi by lia. apply G3. lia.
  Qed.

  (* what the function guarantees on a sorted window *)
  Lemma run_length_spec_idx : sorted w ->
    let n := run_length cmp w bound mx in
    (forall i, (i < n)%nat -> qual w bound mx i = true) /\
    ((n < length w)%nat -> qual w bound mx n = false).
  Proof.
    intros Hs. unfold run_length.
    destruct (Nat.eqb_spec (length w) 0) as [Hz|Hz]; cbn [orb].
    - split; [intros; lia|lia].
    - destruct (qual w bound mx 0) eqn:E0; cbn [negb].
      2:{ split; [intros; lia|auto]. }
      destruct (qual w bound mx (length w - 1)) eqn:E1.
      { split; [|intros; lia]. intros i Hi. apply (qual_mono i (length w - 1)); auto. lia. }
      pose proof (gallop_spec (length w) 0%nat 1%nat) as G.
      destruct (gallop K cmp (length w) w bound mx 0 1) as [lo hi].
      destruct G as [G1 [G2 G3]]; auto; try lia.
      pose proof (qual_lt _ G1).
      pose proof (bisect_spec (length w) lo (Nat.min hi (length w))) as B.
      cbv zeta in B. destruct B as [B1 [B2 [B3 B4]]]; auto; try lia.
      { intros Hm. replace (Nat.min hi (length w)) with hi by lia. apply G3. lia. }
      set (h := bisect K cmp (length w) w bound mx lo (Nat.min hi (length w))) in *.
      split.
      + intros i Hi. apply (qual_mono i (h - 1)); auto. lia.
      + intros Hh. auto.
  Qed.

  (** the specification: the length of the longest qualifying prefix *)
  Fixpoint take_while (f : row -> bool) (l : list row) : list row :=
    match l with
    | [] => []
    | x :: t => if f x then x :: take_while f t else []
    end.

  Lemma take_while_char (f : row -> bool) : forall (l : list row) n,
    (n <= length l)%nat ->
    (forall i r, (i < n)%nat -> nth_error l i = Some r -> f r = true) ->
    (forall r, nth_error l n = Some r -> f r = false) ->
    length (take_while f l) = n.
  Proof.
    induction l as [|x l IH]; intros n Hn Hall Hstop; cbn in *.
    - lia.
    - destruct n as [|n].
      + rewrite (Hstop x eq_refl). reflexivity.
      + rewrite (Hall 0%nat x) by (auto; lia). cbn. f_equal. apply IH; [lia| |].
        * intros i r Hi Hr. apply (Hall (S i) r); [lia|exact Hr].
        * intros r Hr. apply (Hstop r). exact Hr.
  Qed.

  Theorem run_length_spec : sorted w ->
    run_length cmp w bound mx = length (take_while qualifies w).
  Proof.
    intros Hs. symmetry. destruct (run_length_spec_idx Hs) as [H1 H2].
    apply take_while_char.
    - apply run_length_le.
    - intros i r Hi Hr. specialize (H1 i Hi). unfold Model.qual in H1. now rewrite Hr in H1.
    - intros r Hr. assert (Hlt : (run_length cmp w bound mx < length w)%nat).
      { apply nth_error_Some. congruence. }
      specialize (H2 Hlt). unfold Model.qual in H2. now rewrite Hr in H2.
  Qed.

  (* every row of the emitted prefix qualifies *)
  Lemma run_length_prefix_qual : sorted w ->
    forall r, In r (firstn (run_length cmp w bound mx) w) -> rcmp r bound <= mx.
  Proof.
    intros Hs r Hr. destruct (run_length_spec_idx Hs) as [H1 _].
    apply In_nth_error in Hr. destruct Hr as [i Hi].
    assert (Hlt : (i < run_length cmp w bound mx)%nat).
    { assert (H : (i < length (firstn (run_length cmp w bound mx) w))%nat) by (apply nth_error_Some; congruence).
      rewrite firstn_length in H. lia. }
    specialize (H1 i Hlt). unfold Model.qual in H1.
    assert (E : nth_error w i = Some r).
    { rewrite <- (firstn_skipn (run_length cmp w bound mx) w). rewrite nth_error_app1; [exact Hi|].
      apply nth_error_Some. congruence. }
    rewrite E in H1. now apply Z.leb_le.
  Qed.
End RunLength.
