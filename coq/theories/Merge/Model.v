(** Model of merge.go (bufferedRowReader, mergedRowReader2, mergedRowReader,
    runLength, overlappingRowGroups, rowGroupRangeOfSortedColumns), dedupe.go
    (deduplicate / dedupeRowReader) and of the comparators of compare.go that
    the merge uses.  Executable; no proofs here (Merge/*Proofs.v), so that the
    model still extracts and runs when a proof breaks.

    A row is its sort key (abstract type [K], compared by [cmp], whose sign is
    the order as for Go's [func(Row, Row) int]) together with the identity
    (input reader, position in that reader) that the harness stores in two
    payload columns of every row. *)
From Coq Require Import List ZArith Bool Arith Lia.
From PQ Require Import Generated.Consts.
Import ListNotations.
Open Scope Z_scope.

(** replace element [i] of a list (out of range: unchanged) *)
Fixpoint upd {A : Type} (l : list A) (i : nat) (x : A) : list A :=
  match l, i with
  | [], _ => []
  | _ :: t, O => x :: t
  | h :: t, S j => h :: upd t j x
  end.

Section Merge.
  Variable K : Type.
  Variable cmp : K -> K -> Z.

  Record row := mkRow { key : K; input : nat; seq : nat }.

  Definition rcmp (a b : row) : Z := cmp (key a) (key b).

  (** ** (a) the abstract merge scheduler

      A state is the list of the rows that each input still has to deliver.  A
      step emits the head of one input provided it compares <= the head of
      every input (itself included).  [sched st out st'] : from [st] the rows
      [out] can be emitted in that order, leaving [st']. *)
  Definition heads_ge (st : list (list row)) (r : row) : Prop :=
    forall j r' t, nth_error st j = Some (r' :: t) -> rcmp r r' <= 0.

  Inductive sched : list (list row) -> list row -> list (list row) -> Prop :=
  | sched_nil : forall st, sched st [] st
  | sched_cons : forall st i r t out st',
      nth_error st i = Some (r :: t) -> heads_ge st r ->
      sched (upd st i t) out st' -> sched st (r :: out) st'.

  (** an executable instance of the scheduler: the first input whose head is
      minimal (used for non-vacuity and as the reference merge of a segment) *)
  Fixpoint min_head (st : list (list row)) (i : nat) (best : option (nat * row)) : option (nat * row) :=
    match st with
    | [] => best
    | [] :: rest => min_head rest (S i) best
    | (r :: _) :: rest =>
        match best with
        | None => min_head rest (S i) (Some (i, r))
        | Some (_, b) => if rcmp r b <? 0 then min_head rest (S i) (Some (i, r))
                         else min_head rest (S i) best
        end
    end.

  Fixpoint ref_merge (fuel : nat) (st : list (list row)) : list row :=
    match fuel with
    | O => []
    | S f =>
        match min_head st 0%nat None with
        | None => []
        | Some (i, r) => r :: ref_merge f (upd st i (tl (nth i st [])))
        end
    end.

  Definition ref_merge_all (st : list (list row)) : list row :=
    ref_merge (length (concat st)) st.

  (** ** runLength (merge.go:1033)

      [qual w bound mx i] : compare(window[i], bound) <= max.  An index out of
      range does not qualify (the Go code never reads one). *)
  Definition qual (w : list row) (bound : row) (mx : Z) (i : nat) : bool :=
    match nth_error w i with
    | Some r => rcmp r bound <=? mx
    | None => false
    end.

  (* for hi < len(window) && compare(window[hi], bound) <= max { lo = hi; hi *= 2 } *)
  Fixpoint gallop (fuel : nat) (w : list row) (bound : row) (mx : Z) (lo hi : nat) : nat * nat :=
    match fuel with
    | O => (lo, hi)
    | S f => if (hi <? length w)%nat && qual w bound mx hi
             then gallop f w bound mx hi (2 * hi)%nat
             else (lo, hi)
    end.

  (* for lo+1 < hi { mid := (lo+hi)>>1; if compare(window[mid]) <= max { lo = mid } else { hi = mid } } *)
  Fixpoint bisect (fuel : nat) (w : list row) (bound : row) (mx : Z) (lo hi : nat) : nat :=
    match fuel with
    | O => hi
    | S f => if (lo + 1 <? hi)%nat then
               let mid := ((lo + hi) / 2)%nat in
               if qual w bound mx mid then bisect f w bound mx mid hi
               else bisect f w bound mx lo mid
             else hi
    end.

  Definition run_length (w : list row) (bound : row) (mx : Z) : nat :=
    let n := length w in
    if (n =? 0)%nat || negb (qual w bound mx 0) then 0%nat
    else if qual w bound mx (n - 1) then n
    else let '(lo, hi) := gallop n w bound mx 0%nat 1%nat in
         bisect n w bound mx lo (Nat.min hi n).

  (** ** bufferedRowReader (merge.go:968)

      [b_src]: the rows the underlying RowReader has not returned yet;
      [b_chunks]: oracle for the source: the i-th ReadRows call on it returns
      at most [max 1 c_i] rows (a reader returning (0, nil) breaks the
      RowReader contract; when the oracle is exhausted the source fills the
      slice it is given); [b_cap] = len(r.buf), 0 for a nil buffer;
      [b_win] = r.buf[r.off:r.end].  [read] is only ever called on an empty
      buffer, where off = end = 0 (advance resets both), so the window
      determines the buffer. *)
  Record buf := mkBuf {
    b_src : list row; b_chunks : list nat; b_cap : nat; b_full : bool; b_win : list row }.

  Definition no_buf : buf := mkBuf [] [] 0 false [].

  Definition min_buf : nat := Z.to_nat go_parquet_minRowBufferSize.
  Definition max_buf : nat := Z.to_nat go_parquet_maxRowBufferSize.
  Definition run_streak : Z := go_parquet_runDetectionStreak.

  (* read(): None = io.EOF (n == 0 with an error) *)
  Definition buf_read (b : buf) : option buf :=
    let cap := if (b_cap b =? 0)%nat then min_buf
               else if b_full b && (b_cap b <? max_buf)%nat
                    then Nat.min (2 * b_cap b) max_buf else b_cap b in
    let '(c, chunks') := match b_chunks b with
                         | [] => (cap, [])
                         | c :: t => (Nat.max 1 c, t)
                         end in
    let n := Nat.min (Nat.min c cap) (length (b_src b)) in
    match n with
    | O => None
    | _ => Some (mkBuf (skipn n (b_src b)) chunks' cap (n =? cap)%nat (firstn n (b_src b)))
    end.

  (* advance(n): consumes n buffered rows; hasNext = the window is not empty *)
  Definition advance (b : buf) (n : nat) : buf :=
    mkBuf (b_src b) (b_chunks b) (b_cap b) (b_full b) (skipn n (b_win b)).

  Definition has_next (b : buf) : bool :=
    match b_win b with [] => false | _ => true end.

  (* the rows an input still has to deliver *)
  Definition remaining (b : buf) : list row := b_win b ++ b_src b.
  Definition remaining_opt (r : option buf) : list row :=
    match r with Some b => remaining b | None => [] end.

  (** ** mergedRowReader2 (merge.go:569) *)
  Record m2 := mkM2 { m_r0 : option buf; m_r1 : option buf; m_prev : Z; m_streak : Z }.

  (* initialize(): a reader whose first read is io.EOF is dropped (nil) *)
  Definition m2_init (b0 b1 : buf) : m2 := mkM2 (buf_read b0) (buf_read b1) 0 0.

  (* if r != nil && r.empty() { if r.read() == io.EOF { r = nil } } *)
  Definition refill (r : option buf) : option buf :=
    match r with
    | Some b => match b_win b with [] => buf_read b | _ => Some b end
    | None => None
    end.

  (* case r0 == nil / r1 == nil: copy buffered rows until the batch is full or
     the window is exhausted *)
  Definition drain (room : nat) (b : buf) : list row * buf :=
    let t := Nat.min room (length (b_win b)) in
    (firstn t (b_win b), advance b t).

  (* emitRun (merge.go:712): max = -1, ties excluded *)
  Definition emit_run (room : nat) (b : buf) (bound : row) : list row * buf :=
    let window := firstn room (b_win b) in
    let run := (1 + match window with
                    | _ :: ((_ :: _) as t) => run_length t bound (-1)
                    | _ => 0
                    end)%nat in
    (firstn run window, advance b run).

  (* the loop of the default case of ReadRows; [room] = len(rows) - n.  The
     loop stops when the batch is full or one window is exhausted
     (!hasNext0 || !hasNext1). *)
  Fixpoint loop2 (fuel room : nat) (b0 b1 : buf) (prev streak : Z)
    : list row * buf * buf * Z * Z :=
    match fuel with
    | O => ([], b0, b1, prev, streak)
    | S f =>
      if (room =? 0)%nat then ([], b0, b1, prev, streak) else
      match b_win b0, b_win b1 with
      | h0 :: _, h1 :: _ =>
        let c := rcmp h0 h1 in
        if c <? 0 then
          let streak' := if prev <? 0 then streak + 1 else 0 in
          let '(em, b0') := if streak' >=? run_streak then emit_run room b0 h1
                            else ([h0], advance b0 1) in
          if has_next b0' then
            let '(out, x0, x1, p, s) := loop2 f (room - length em) b0' b1 (-1) streak' in
            (em ++ out, x0, x1, p, s)
          else (em, b0', b1, -1, streak')
        else if c >? 0 then
          let streak' := if prev >? 0 then streak + 1 else 0 in
          let '(em, b1') := if streak' >=? run_streak then emit_run room b1 h0
                            else ([h1], advance b1 1) in
          if has_next b1' then
            let '(out, x0, x1, p, s) := loop2 f (room - length em) b0 b1' 1 streak' in
            (em ++ out, x0, x1, p, s)
          else (em, b0, b1', 1, streak')
        else
          (* tie: r0's row, then r1's row if the batch has room for it *)
          let b0' := advance b0 1 in
          if (1 <? room)%nat then
            let b1' := advance b1 1 in
            if has_next b0' && has_next b1' then
              let '(out, x0, x1, p, s) := loop2 f (room - 2) b0' b1' 0 0 in
              (h0 :: h1 :: out, x0, x1, p, s)
            else ([h0; h1], b0', b1', 0, 0)
          else ([h0], b0', b1, 0, 0)   (* the batch is full: the loop ends *)
      | _, _ => ([], b0, b1, prev, streak)   (* not reached: both windows are non-empty *)
      end
    end.

  (* ReadRows(rows) with len(rows) = n: (rows produced, err == io.EOF, state) *)
  Definition read_rows2 (m : m2) (n : nat) : list row * bool * m2 :=
    let r0 := refill (m_r0 m) in
    let r1 := refill (m_r1 m) in
    match r0, r1 with
    | None, None => ([], true, mkM2 None None (m_prev m) (m_streak m))
    | None, Some b1 =>
        let '(out, b1') := drain n b1 in (out, false, mkM2 None (Some b1') (m_prev m) (m_streak m))
    | Some b0, None =>
        let '(out, b0') := drain n b0 in (out, false, mkM2 (Some b0') None (m_prev m) (m_streak m))
    | Some b0, Some b1 =>
        let '(out, b0', b1', p, s) := loop2 n n b0 b1 (m_prev m) (m_streak m) in
        (out, false, mkM2 (Some b0') (Some b1') p s)
    end.

  (* successive ReadRows calls with the given slice lengths, until io.EOF *)
  Fixpoint run2 (m : m2) (batches : list nat) : list (list row) * bool * m2 :=
    match batches with
    | [] => ([], false, m)
    | n :: t =>
        let '(out, eof, m') := read_rows2 m n in
        if eof then ([], true, m')
        else let '(outs, e, m'') := run2 m' t in (out :: outs, e, m'')
    end.

  Definition source (rows : list row) (chunks : list nat) : buf := mkBuf rows chunks 0 false [].

  Definition merge2 (in0 in1 : list row) (ch0 ch1 : list nat) (batches : list nat)
    : list (list row) * bool * m2 :=
    (* initialize() runs in the first ReadRows call; it only reads from the
       sources, so running it up front is not observable *)
    run2 (m2_init (source in0 ch0) (source in1 ch1)) batches.

  (** ** mergedRowReader (merge.go:740): tournament tree of losers

      [k_losers] has k entries (internal nodes 0..k-1), players are buffer
      indexes, a negative player is an exhausted reader; the leaf of buffer i
      is the implicit position k+i. *)
  Record mk := mkMK {
    k_bufs : list buf; k_losers : list Z; k_count : nat;
    k_winner : Z; k_leaf : Z; k_streak : Z }.

  Definition head_of (bufs : list buf) (p : Z) : option row :=
    match b_win (nth (Z.to_nat p) bufs no_buf) with
    | h :: _ => Some h
    | [] => None
    end.

  (* compare(m.buffers[a].head(), m.buffers[b].head()); players on which the
     Go code calls it always have a buffered head *)
  Definition cmp_heads (bufs : list buf) (a b : Z) : Z :=
    match head_of bufs a, head_of bufs b with
    | Some x, Some y => rcmp x y
    | _, _ => 0
    end.

  (* playGame(n1, n2) = (loser, winner): the second argument wins ties *)
  Definition play_game (bufs : list buf) (n1 n2 : Z) : Z * Z :=
    if n1 <? 0 then (n1, n2)
    else if n2 <? 0 then (n2, n1)
    else if cmp_heads bufs n1 n2 <? 0 then (n2, n1)
    else (n1, n2).

  (* playInitialGames(i, leaves) *)
  Fixpoint play_initial (fuel : nat) (bufs : list buf) (leaves : list Z) (losers : list Z) (i : nat)
    : list Z * Z :=
    let k := length bufs in
    if (k <=? i)%nat then (losers, nth (i - k) leaves (-1))
    else match fuel with
         | O => (losers, -1)
         | S f =>
             let '(l1, n1) := play_initial f bufs leaves losers (2 * i + 1) in
             let '(l2, n2) := play_initial f bufs leaves l1 (2 * i + 2) in
             let '(loser, winner) := play_game bufs n1 n2 in
             (upd l2 i loser, winner)
         end.

  (* the walk of replayGames from [offset] to the root: the incumbent wins ties *)
  Fixpoint replay_walk (fuel : nat) (bufs : list buf) (losers : list Z) (winner : Z) (offset : nat)
    : list Z * Z :=
    let player := nth offset losers (-1) in
    let '(losers', winner') :=
      if (0 <=? player) && ((winner <? 0) || (cmp_heads bufs player winner <? 0))
      then (upd losers offset winner, player) else (losers, winner) in
    match offset, fuel with
    | O, _ => (losers', winner')
    | _, O => (losers', winner')
    | _, S f => replay_walk f bufs losers' winner' ((offset - 1) / 2)%nat
    end.

  Definition leaf_parent (leaf : Z) : nat := Z.to_nat ((leaf - 1) / 2).

  (* replayGames() *)
  Definition replay (m : mk) : mk :=
    let '(losers', w) := replay_walk (length (k_bufs m)) (k_bufs m) (k_losers m) (k_winner m)
                                     (leaf_parent (k_leaf m)) in
    mkMK (k_bufs m) losers' (k_count m) w (Z.of_nat (length (k_bufs m)) + w) (k_streak m).

  (* runBound(): the smallest head among the losers on the winner's path *)
  Fixpoint bound_walk (fuel : nat) (bufs : list buf) (losers : list Z) (offset : nat) (bound : option row)
    : option row :=
    let player := nth offset losers (-1) in
    let bound' :=
      if 0 <=? player then
        match head_of bufs player with
        | Some h => match bound with
                    | None => Some h
                    | Some b => if rcmp h b <? 0 then Some h else bound
                    end
        | None => bound
        end
      else bound in
    match offset, fuel with
    | O, _ => bound'
    | _, O => bound'
    | _, S f => bound_walk f bufs losers ((offset - 1) / 2)%nat bound'
    end.

  Definition run_bound (m : mk) : option row :=
    bound_walk (length (k_bufs m)) (k_bufs m) (k_losers m) (leaf_parent (k_leaf m)) None.

  Definition set_buf (m : mk) (i : nat) (b : buf) : mk :=
    mkMK (upd (k_bufs m) i b) (k_losers m) (k_count m) (k_winner m) (k_leaf m) (k_streak m).
  Definition set_streak (m : mk) (s : Z) : mk :=
    mkMK (k_bufs m) (k_losers m) (k_count m) (k_winner m) (k_leaf m) s.

  (* initialize() *)
  Fixpoint init_reads (bufs : list buf) (i : nat) : list buf * list Z * nat :=
    match bufs with
    | [] => ([], [], 0%nat)
    | b :: t =>
        let '(bs, ls, cnt) := init_reads t (S i) in
        match buf_read b with
        | Some b' => (b' :: bs, Z.of_nat i :: ls, S cnt)
        | None => (b :: bs, (-1) :: ls, cnt)
        end
    end.

  Definition mk_init (bufs : list buf) : mk :=
    let k := length bufs in
    let '(bs, leaves, cnt) := init_reads bufs 0 in
    let zero := repeat 0 k in
    match cnt with
    | O => mkMK bs zero 0 0 0 0
    | _ => let '(losers, w) := play_initial (S k) bs leaves zero 0 in
           mkMK bs losers cnt w (Z.of_nat k + w) 0
    end.

  (* the inner loop of run mode: (rows, buffer, returned) where [returned]
     tells that the buffer was exhausted (return n, nil) *)
  Fixpoint run_loop (fuel room : nat) (c : buf) (bound : option row) : list row * buf * bool :=
    match fuel with
    | O => ([], c, false)
    | S f =>
      if (room =? 0)%nat then ([], c, false) else
      let window := firstn room (b_win c) in
      let run := match bound with
                 | None => length window
                 | Some b => run_length window b 0
                 end in
      let em := firstn run window in
      let c' := advance c run in
      if negb (has_next c') then (em, c', true)
      else if (run <? length window)%nat then (em, c', false)
      else let '(em2, c'', r) := run_loop f (room - run) c' bound in (em ++ em2, c'', r)
    end.

  (* the loop of ReadRows; result: rows, err == io.EOF, state *)
  Fixpoint loopk (fuel room : nat) (m : mk) : list row * bool * mk :=
    match fuel with
    | O => ([], false, m)
    | S f =>
      if (room =? 0)%nat || (k_count m =? 0)%nat then ([], (k_count m =? 0)%nat, m) else
      let w := Z.to_nat (k_winner m) in
      let c := nth w (k_bufs m) no_buf in
      match b_win c with
      | [] =>
          (* the winner's buffer is exhausted: repopulate it *)
          match buf_read c with
          | Some c' =>
              let m1 := replay (set_buf m w c') in
              loopk f room (if k_winner m1 =? k_winner m then m1 else set_streak m1 0)
          | None =>
              let m0 := mkMK (k_bufs m) (k_losers m) (k_count m - 1) (-1) (k_leaf m) (k_streak m) in
              let m1 := replay m0 in
              loopk f room (if k_winner m1 =? -1 then m1 else set_streak m1 0)
          end
      | h :: _ =>
          let c' := advance c 1 in
          let m' := set_buf m w c' in
          if negb (has_next c') then ([h], false, m')
          else if k_streak m >=? run_streak then
            let bound := run_bound m' in
            let '(em, c'', returned) := run_loop (S room) (room - 1) c' bound in
            let m'' := set_buf m' w c'' in
            if returned then (h :: em, false, m'')
            else
              let '(out, e, mf) := loopk f (room - 1 - length em) (replay (set_streak m'' 0)) in
              (h :: em ++ out, e, mf)
          else
            let m1 := replay m' in
            let m2 := set_streak m1 (if k_winner m1 =? k_winner m then k_streak m + 1 else 0) in
            let '(out, e, mf) := loopk f (room - 1) m2 in
            (h :: out, e, mf)
      end
    end.

  Definition read_rowsk (m : mk) (n : nat) : list row * bool * mk := loopk (2 * n + 2) n m.

  Fixpoint runk (m : mk) (batches : list nat) : list (list row) * bool * mk :=
    match batches with
    | [] => ([], false, m)
    | n :: t =>
        let '(out, eof, m') := read_rowsk m n in
        if eof then (match out with [] => [] | _ => [out] end, true, m')
        else let '(outs, e, m'') := runk m' t in (out :: outs, e, m'')
    end.

  Fixpoint sources (ins : list (list row)) (chunks : list (list nat)) : list buf :=
    match ins with
    | [] => []
    | r :: t => source r (hd [] chunks) :: sources t (tl chunks)
    end.

  Definition mergek (ins : list (list row)) (chunks : list (list nat)) (batches : list nat)
    : list (list row) * bool * mk :=
    runk (mk_init (sources ins chunks)) batches.

  (** ** dedupe.go: deduplicate / dedupeRowReader

      [last] is d.lastRow ([None] when empty).  A row is a duplicate when it
      compares equal to the last row kept; the batch is rewritten to hold the
      kept rows first. *)
  Fixpoint dedupe_batch (last : option row) (rows : list row) : list row * option row :=
    match rows with
    | [] => ([], last)
    | r :: t =>
        let dup := match last with Some l => rcmp r l =? 0 | None => false end in
        if dup then dedupe_batch last t
        else let '(u, l') := dedupe_batch (Some r) t in (r :: u, l')
    end.

  (* dedupeRowReader.ReadRows over the successive batches of the underlying
     reader: batches left empty by deduplication are skipped (the loop reads
     again) *)
  Fixpoint dedupe_batches (last : option row) (batches : list (list row)) : list (list row) :=
    match batches with
    | [] => []
    | b :: t =>
        let '(u, l') := dedupe_batch last b in
        match u with
        | [] => dedupe_batches l' t
        | _ => u :: dedupe_batches l' t
        end
    end.

  (* batch-free specification: keep a row unless it equals the previous kept row *)
  Definition dedupe_spec (rows : list row) : list row := fst (dedupe_batch None rows).

  (** ** overlappingRowGroups (merge.go:155)

      A range is the identity of a row group with the bounds of its sorting
      columns, expressed as keys. *)
  Record range := mkRange { r_id : nat; r_min : K; r_max : K }.

  (* slices.SortFunc by min.  For at most 12 elements pdqsortCmpFunc is
     insertionSortCmpFunc: data[i] moves left while it is strictly less than
     its predecessor.  [acc] is the sorted prefix, reversed. *)
  Fixpoint ins_rev (x : range) (acc : list range) : list range :=
    match acc with
    | [] => [x]
    | y :: t => if cmp (r_min x) (r_min y) <? 0 then y :: ins_rev x t else x :: acc
    end.

  Definition sort_ranges (l : list range) : list range :=
    rev (fold_left (fun acc x => ins_rev x acc) l []).

  (* the sweep with currentMax; [cur] is the current segment, reversed *)
  Fixpoint sweep (cur : list range) (curmax : K) (rest : list range) : list (list range) :=
    match rest with
    | [] => [rev cur]
    | rr :: t =>
        if cmp (r_min rr) curmax <=? 0
        then sweep (rr :: cur) (if cmp (r_max rr) curmax >? 0 then r_max rr else curmax) t
        else rev cur :: sweep [rr] (r_max rr) t
    end.

  (* the segments of already sorted ranges *)
  Definition segments_sorted (sorted : list range) : list (list range) :=
    match sorted with
    | [] => []
    | r :: t => sweep [r] (r_max r) t
    end.

  Definition segments (ranges : list range) : list (list range) :=
    segments_sorted (sort_ranges ranges).
End Merge.

Arguments mkRow {K}.
Arguments key {K}.
Arguments input {K}.
Arguments seq {K}.
Arguments rcmp {K}.
Arguments heads_ge {K}.
Arguments sched {K}.
Arguments ref_merge_all {K}.
Arguments qual {K}.
Arguments run_length {K}.
Arguments mkBuf {K}.
Arguments b_src {K}.
Arguments b_chunks {K}.
Arguments b_cap {K}.
Arguments b_full {K}.
Arguments b_win {K}.
Arguments buf_read {K}.
Arguments advance {K}.
Arguments has_next {K}.
Arguments remaining {K}.
Arguments remaining_opt {K}.
Arguments mkM2 {K}.
Arguments m_r0 {K}.
Arguments m_r1 {K}.
Arguments m_prev {K}.
Arguments m_streak {K}.
Arguments source {K}.
Arguments sources {K}.
Arguments merge2 {K}.
Arguments mergek {K}.
Arguments k_bufs {K}.
Arguments k_losers {K}.
Arguments k_count {K}.
Arguments k_winner {K}.
Arguments k_leaf {K}.
Arguments k_streak {K}.
Arguments dedupe_batch {K}.
Arguments dedupe_batches {K}.
Arguments dedupe_spec {K}.
Arguments mkRange {K}.
Arguments r_id {K}.
Arguments r_min {K}.
Arguments r_max {K}.
Arguments sort_ranges {K}.
Arguments sweep {K}.
Arguments segments_sorted {K}.
Arguments segments {K}.
