(** dedupe.go: over a sorted sequence, however it is cut into batches, the
    deduplicating reader keeps exactly one row per distinct key: the first row
    of each run of equal keys. *)
From Coq Require Import List ZArith Bool Arith Lia Sorting.Sorted.
From PQ Require Import Merge.Model Merge.AbstractProofs.
Import ListNotations.
Open Scope Z_scope.

Section Dedupe.
  Variable K : Type.
  Variable cmp : K -> K -> Z.
  Hypothesis cmp_opp : forall a b, cmp a b < 0 <-> cmp b a > 0.
  Hypothesis cmp_trans : forall a b d, cmp a b <= 0 -> cmp b d <= 0 -> cmp a d <= 0.

  Notation row := (row K).
  Notation rcmp := (rcmp cmp).
  Notation sorted := (sorted K cmp).
  Notation rle := (rle K cmp).

  (** ** batch boundaries do not matter *)
  Lemma dedupe_batch_app a : forall last b,
    dedupe_batch cmp last (a ++ b) =
    (fst (dedupe_batch cmp last a) ++ fst (dedupe_batch cmp (snd (dedupe_batch cmp last a)) b),
     snd (dedupe_batch cmp (snd (dedupe_batch cmp last a)) b)).
  Proof.
    induction a as [|r a IH]; intros last b; cbn [app dedupe_batch].
    - cbn. now destruct (dedupe_batch cmp last b).
    - destruct (match last with Some l => rcmp r l =? 0 | None => false end).
      + apply IH.
      + rewrite IH. destruct (dedupe_batch cmp (Some r) a) as [u l']. cbn.
        now destruct (dedupe_batch cmp l' b).
  Qed.

  Lemma dedupe_batches_concat bs : forall last,
    concat (dedupe_batches cmp last bs) = fst (dedupe_batch cmp last (concat bs)).
  Proof.
    induction bs as [|b bs IH]; intros last; cbn [dedupe_batches concat].
    - reflexivity.
    - rewrite dedupe_batch_app. cbn [fst]. destruct (dedupe_batch cmp last b) as [u l'] eqn:E. cbn [fst snd].
      rewrite <- IH. destruct u; reflexivity.
  Qed.

  Theorem dedupe_batches_spec bs :
    concat (dedupe_batches cmp None bs) = dedupe_spec cmp (concat bs).
  Proof. apply dedupe_batches_concat. Qed.

  (** ** the kept rows are the first rows of the runs of equal keys *)
  Definition same_key (a b : row) : Prop := rcmp a b = 0.

  Definition dup_of (prev : option row) (r : row) : bool :=
    match prev with Some p => rcmp r p =? 0 | None => false end.

  (* keep a row unless it has the key of the row just before it *)
  Fixpoint firsts_from (prev : option row) (l : list row) : list row :=
    match l with
    | [] => []
    | r :: t => if dup_of prev r then firsts_from (Some r) t else r :: firsts_from (Some r) t
    end.
  Definition firsts (l : list row) : list row := firsts_from None l.

  Lemma same_key_sym a b : same_key a b -> same_key b a.
  Proof. unfold same_key, Model.rcmp. apply (cmp_eq_sym K cmp cmp_opp). Qed.

  Lemma same_key_trans a b d : same_key a b -> same_key b d -> same_key a d.
  Proof. unfold same_key, Model.rcmp. apply (cmp_eq_trans K cmp cmp_opp cmp_trans). Qed.

  Lemma dedupe_firsts_gen l : forall last prev,
    match last, prev with
    | None, None => True
    | Some a, Some b => same_key a b
    | _, _ => False
    end ->
    fst (dedupe_batch cmp last l) = firsts_from prev l.
  Proof.
    induction l as [|r l IH]; intros last prev Hrel; cbn [dedupe_batch firsts_from]; [reflexivity|].
    assert (Hd : match last with Some a => rcmp r a =? 0 | None => false end = dup_of prev r).
    { destruct last as [a|], prev as [b|]; cbn; try contradiction; [|reflexivity].
      destruct (Z.eqb_spec (rcmp r a) 0) as [E|E]; destruct (Z.eqb_spec (rcmp r b) 0) as [F|F]; auto; exfalso.
      - apply F. exact (same_key_trans _ _ _ E Hrel).
      - apply E. exact (same_key_trans _ _ _ F (same_key_sym _ _ Hrel)). }
    rewrite Hd. destruct (dup_of prev r) eqn:Ed.
    - apply IH. destruct last as [a|], prev as [b|]; cbn in *; try contradiction; try discriminate.
      apply Z.eqb_eq in Ed. exact (same_key_trans _ _ _ Hrel (same_key_sym _ _ Ed)).
    - specialize (IH (Some r) (Some r)). destruct (dedupe_batch cmp (Some r) l) as [u l']. cbn [fst] in *.
      f_equal. apply IH. unfold same_key, Model.rcmp. apply (cmp_refl K cmp cmp_opp).
  Qed.

  Theorem dedupe_first_of_runs l : dedupe_spec cmp l = firsts l.
  Proof. unfold dedupe_spec, firsts. now apply dedupe_firsts_gen. Qed.

  (** ** on a sorted sequence: strictly increasing, complete, a subsequence *)
  Definition rlt (a b : row) : Prop := rcmp a b < 0.

  Inductive subseq : list row -> list row -> Prop :=
  | subseq_nil : subseq [] []
  | subseq_skip : forall x l1 l2, subseq l1 l2 -> subseq l1 (x :: l2)
  | subseq_keep : forall x l1 l2, subseq l1 l2 -> subseq (x :: l1) (x :: l2).

  Lemma firsts_from_subseq l : forall prev, subseq (firsts_from prev l) l.
  Proof.
    induction l as [|r l IH]; intros prev; cbn; [constructor|].
    destruct (dup_of prev r); constructor; apply IH.
  Qed.

  Lemma subseq_in l1 l2 x : subseq l1 l2 -> In x l1 -> In x l2.
  Proof. induction 1; cbn; intros; tauto. Qed.

  (* all kept rows are strictly above [prev] *)
  Lemma firsts_from_sorted l : forall p, sorted (p :: l) ->
    StronglySorted rlt (firsts_from (Some p) l) /\ Forall (rlt p) (firsts_from (Some p) l).
  Proof.
    induction l as [|r l IH]; intros p Hs; cbn [firsts_from]; [split; constructor|].
    inversion Hs as [|? ? Hs' Hf]; subst. inversion Hf as [|? ? Hpr Hf']; subst.
    destruct (IH r Hs') as [I1 I2].
    assert (Hup : forall x, rlt r x -> rle p r -> rlt p x).
    { intros x Hx Hp. unfold rlt, AbstractProofs.rle, Model.rcmp in *.
      eapply (cmp_le_lt_trans K cmp cmp_opp cmp_trans); eauto. }
    unfold dup_of. destruct (Z.eqb_spec (rcmp r p) 0) as [E|E].
    - split; [exact I1|]. eapply Forall_impl; [|exact I2]. intros x Hx. apply Hup; auto.
    - assert (Hlt : rlt p r).
      { unfold rlt, AbstractProofs.rle, Model.rcmp in *.
        destruct (Z.eq_dec (cmp (key p) (key r)) 0) as [Z0|Z0]; [|lia].
        exfalso. apply E. apply (cmp_eq_sym K cmp cmp_opp). exact Z0. }
      split.
      + constructor; assumption.
      + constructor; [exact Hlt|]. eapply Forall_impl; [|exact I2]. intros x Hx. apply Hup; auto.
  Qed.

  Lemma firsts_sorted l : sorted l -> StronglySorted rlt (firsts l).
  Proof.
    destruct l as [|r l]; cbn; intros Hs; [constructor|].
    destruct (firsts_from_sorted l r Hs). constructor; assumption.
  Qed.

  (* every row has a kept row with its key (or has the key of [prev]) *)
  Lemma firsts_from_complete l : forall prev x, In x l ->
    (exists p, prev = Some p /\ same_key x p) \/ exists y, In y (firsts_from prev l) /\ same_key x y.
  Proof.
    induction l as [|r l IH]; intros prev x Hx; [contradiction|]. cbn [firsts_from].
    destruct Hx as [<-|Hx].
    - destruct (dup_of prev r) eqn:Ed.
      + left. destruct prev as [p|]; cbn in Ed; [|discriminate]. exists p. split; [reflexivity|]. now apply Z.eqb_eq.
      + right. exists r. split; [now left|]. unfold same_key, Model.rcmp. apply (cmp_refl K cmp cmp_opp).
    - destruct (IH (Some r) x Hx) as [[p [Ep Hp]]|[y [Hy Hxy]]].
      + inversion Ep; subst p. destruct (dup_of prev r) eqn:Ed.
        * left. destruct prev as [q|]; cbn in Ed; [|discriminate]. exists q. split; [reflexivity|].
          apply Z.eqb_eq in Ed. exact (same_key_trans _ _ _ Hp Ed).
        * right. exists r. split; [now left|exact Hp].
      + right. exists y. split; [|exact Hxy]. destruct (dup_of prev r); [exact Hy|now right].
  Qed.

  (** the statement of the property for duplicate dropping *)
  Theorem dedupe_one_per_key bs :
    sorted (concat bs) ->
    let out := concat (dedupe_batches cmp None bs) in
    out = firsts (concat bs) /\
    StronglySorted rlt out /\
    (forall x, In x (concat bs) -> exists y, In y out /\ same_key x y) /\
    subseq out (concat bs).
  Proof.
    intros Hs out. assert (E : out = firsts (concat bs)).
    { unfold out. rewrite dedupe_batches_spec. apply dedupe_first_of_runs. }
    rewrite E. repeat split.
    - now apply firsts_sorted.
    - intros x Hx. destruct (firsts_from_complete (concat bs) None x Hx) as [[p [Ep _]]|H]; [discriminate|exact H].
    - apply firsts_from_subseq.
  Qed.

  (* strictly increasing: no two kept rows have the same key *)
  Lemma strictly_sorted_distinct l : StronglySorted rlt l ->
    forall i j a b, (i < j)%nat -> nth_error l i = Some a -> nth_error l j = Some b -> ~ same_key a b.
  Proof.
    induction 1 as [|x l Hs IH Hf]; intros [|i] [|j] a b Hij Ha Hb; cbn in *; try discriminate; try lia.
    - inversion Ha; subst. rewrite Forall_forall in Hf. specialize (Hf b (nth_error_In _ _ Hb)).
      unfold rlt, same_key in *. lia.
    - eapply (IH i j); eauto. lia.
  Qed.
End Dedupe.
