(** The comparators of the instances are total preorders, and the bounds of
    the tree before commit 77fc8c6 (first / last non-null page only) make two
    sorted row groups with null keys look disjoint. *)
From Coq Require Import List ZArith Bool Arith Lia Sorting.Sorted.
From PQ Require Import Merge.Model Merge.Instance Merge.AbstractProofs.
Import ListNotations.
Open Scope Z_scope.

Lemma cmpZ_spec x y :
  (cmpZ x y = -1 /\ x < y) \/ (cmpZ x y = 0 /\ x = y) \/ (cmpZ x y = 1 /\ x > y).
Proof. unfold cmpZ. destruct (Z.compare_spec x y); lia. Qed.

Lemma cmpZ_opp a b : cmpZ a b < 0 <-> cmpZ b a > 0.
Proof. destruct (cmpZ_spec a b) as [|[|]], (cmpZ_spec b a) as [|[|]]; lia. Qed.

Lemma cmpZ_trans a b d : cmpZ a b <= 0 -> cmpZ b d <= 0 -> cmpZ a d <= 0.
Proof. destruct (cmpZ_spec a b) as [|[|]], (cmpZ_spec b d) as [|[|]], (cmpZ_spec a d) as [|[|]]; lia. Qed.

Lemma cmp_col_opp cf a b : cmp_col cf a b < 0 <-> cmp_col cf b a > 0.
Proof.
  destruct cf as [[|] [|]], a as [x|], b as [y|]; cbn; try lia;
    destruct (cmpZ_spec x y) as [|[|]], (cmpZ_spec y x) as [|[|]]; lia.
Qed.

Lemma cmp_col_trans cf a b d : cmp_col cf a b <= 0 -> cmp_col cf b d <= 0 -> cmp_col cf a d <= 0.
Proof.
  destruct cf as [[|] [|]], a as [x|], b as [y|], d as [z|]; cbn; try lia;
    destruct (cmpZ_spec x y) as [|[|]], (cmpZ_spec y z) as [|[|]], (cmpZ_spec x z) as [|[|]]; lia.
Qed.

Lemma cmpL_opp cfg : forall a b, cmpL cfg a b < 0 <-> cmpL cfg b a > 0.
Proof.
  induction cfg as [|cf cfg IH]; intros a b; cbn [cmpL]; [lia|].
  pose proof (cmp_col_opp cf (hd None a) (hd None b)). pose proof (cmp_col_opp cf (hd None b) (hd None a)).
  destruct (Z.eqb_spec (cmp_col cf (hd None a) (hd None b)) 0), (Z.eqb_spec (cmp_col cf (hd None b) (hd None a)) 0);
    try lia. apply IH.
Qed.

Lemma cmpL_trans cfg : forall a b d, cmpL cfg a b <= 0 -> cmpL cfg b d <= 0 -> cmpL cfg a d <= 0.
Proof.
  induction cfg as [|cf cfg IH]; intros a b d; cbn [cmpL]; [lia|].
  set (x := hd None a). set (y := hd None b). set (z := hd None d).
  pose proof (cmp_col_opp cf x y). pose proof (cmp_col_opp cf y x).
  pose proof (cmp_col_opp cf y z). pose proof (cmp_col_opp cf z y).
  pose proof (cmp_col_opp cf x z). pose proof (cmp_col_opp cf z x).
  pose proof (cmp_col_trans cf x y z). pose proof (cmp_col_trans cf z y x).
  pose proof (cmp_col_trans cf y x z). pose proof (cmp_col_trans cf y z x).
  pose proof (cmp_col_trans cf x z y). pose proof (cmp_col_trans cf z x y).
  destruct (Z.eqb_spec (cmp_col cf x y) 0), (Z.eqb_spec (cmp_col cf y z) 0), (Z.eqb_spec (cmp_col cf x z) 0);
    try lia. apply IH.
Qed.

(** the executable sortedness test decides [Sorted] *)
Lemma sortedb_Sorted cfg l : sortedb cfg l = true <-> Sorted (fun a b => cmpL cfg a b <= 0) l.
Proof.
  induction l as [|a l IH]; cbn [sortedb]; [split; [constructor|reflexivity]|].
  destruct l as [|b l].
  - split; [repeat constructor|reflexivity].
  - rewrite andb_true_iff, Z.leb_le, IH. split.
    + intros [H1 H2]. constructor; [exact H2|constructor; exact H1].
    + intros H. inversion H as [|? ? H2 H1]; subst. inversion H1; subst. auto.
Qed.

(** ** the witness of the repaired defect *)
Definition ex_cfg : list colcfg := [(false, false)].
Definition ex_inputs : list (list keyL) :=
  [[[Some 1]; [Some 2]; [None]]; [[Some 3]; [Some 4]; [None]]].

Lemma ex_inputs_sorted : Forall (fun l => Sorted (fun a b => cmpL ex_cfg a b <= 0) l) ex_inputs.
Proof. constructor; [|constructor; [|constructor]]; apply sortedb_Sorted; reflexivity. Qed.

(* with the bounds of the pinned tree the row groups fall into two segments and
   the plan concatenates them: 1,2,null,3,4,null *)
Lemma ex_pinned_plan :
  plan_segments true ex_cfg 0 ex_inputs = [[0%nat]; [1%nat]] /\
  map (@key keyL) (plan_rows true ex_cfg 0 64 false ex_inputs) =
    [[Some 1]; [Some 2]; [None]; [Some 3]; [Some 4]; [None]].
Proof. split; vm_compute; reflexivity. Qed.

Lemma ex_pinned_not_sorted :
  ~ Sorted (fun a b => cmpL ex_cfg a b <= 0) (map (@key keyL) (plan_rows true ex_cfg 0 64 false ex_inputs)).
Proof. rewrite <- sortedb_Sorted. vm_compute. discriminate. Qed.

(* the pinned bounds are not bounds: the null row of the first group is above its "max" *)
Lemma ex_pinned_bounds_wrong :
  row_group_bounds true ex_cfg 0 (nth 0 ex_inputs []) = Some ([Some 1], [Some 2]) /\
  cmpL ex_cfg [None] [Some 2] > 0.
Proof. split; vm_compute; reflexivity. Qed.

(* the current code reports the bounds as unavailable and merges *)
Lemma ex_current_plan :
  row_group_bounds false ex_cfg 0 (nth 0 ex_inputs []) = None /\
  plan_segments false ex_cfg 0 ex_inputs = [[0%nat; 1%nat]] /\
  Sorted (fun a b => cmpL ex_cfg a b <= 0) (map (@key keyL) (plan_rows false ex_cfg 0 64 false ex_inputs)).
Proof. repeat split; try (vm_compute; reflexivity). apply sortedb_Sorted. vm_compute. reflexivity. Qed.

(** tagging sorted keys gives sorted, well-tagged rows *)
Lemma tag_from_forall cfg k i j s l :
  Forall (fun b => cmpL cfg k b <= 0) l -> Forall (rle keyL (cmpL cfg) (mkRow k i j)) (tag_from i s l).
Proof. intros H. revert s. induction H; intros s; cbn; constructor; auto. Qed.

Lemma keys_sorted_sorted cfg i s l :
  Sorted (fun a b => cmpL cfg a b <= 0) l -> sorted keyL (cmpL cfg) (tag_from i s l).
Proof.
  intros H. apply Sorted_StronglySorted in H.
  2:{ intros a b d. apply cmpL_trans. }
  revert s. induction H as [|k l Hs IH Hf]; intros s; cbn; [constructor|].
  constructor; [apply IH|]. now apply tag_from_forall.
Qed.

Lemma tag_from_input {A} i s (l : list A) r : In r (tag_from i s l) -> input r = i.
Proof. revert s; induction l; cbn; intros s H; [contradiction|]. destruct H as [<-|H]; eauto. Qed.
