(** overlappingRowGroups (merge.go:155): when the ranges are true bounds of
    the rows of their row groups, the segments formed by the sweep are pairwise
    ordered, so concatenating the merged segments in order is sorted and
    complete. *)
From Coq Require Import List ZArith Bool Arith Lia Sorting.Sorted Sorting.Permutation.
From PQ Require Import Merge.Model Merge.AbstractProofs.
Import ListNotations.
Open Scope Z_scope.

Lemma SS_app {A} (R : A -> A -> Prop) l1 l2 :
  StronglySorted R l1 -> StronglySorted R l2 -> (forall a b, In a l1 -> In b l2 -> R a b) ->
  StronglySorted R (l1 ++ l2).
Proof.
  induction l1 as [|x l1 IH]; cbn; intros H1 H2 H; [exact H2|].
  inversion H1 as [|? ? Hs Hf]; subst. constructor.
  - apply IH; auto.
  - rewrite Forall_app. split; [exact Hf|]. rewrite Forall_forall. intros b Hb. apply H; auto.
Qed.

Lemma SS_rev {A} (R : A -> A -> Prop) l :
  StronglySorted (fun a b => R b a) l -> StronglySorted R (rev l).
Proof.
  induction 1 as [|x l Hs IH Hf]; cbn; [constructor|].
  apply SS_app; [exact IH|repeat constructor|].
  intros a b Ha [<-|[]]. rewrite Forall_forall in Hf. apply Hf. now apply in_rev.
Qed.

Section Segments.
  Variable K : Type.
  Variable cmp : K -> K -> Z.
  Hypothesis cmp_opp : forall a b, cmp a b < 0 <-> cmp b a > 0.
  Hypothesis cmp_trans : forall a b d, cmp a b <= 0 -> cmp b d <= 0 -> cmp a d <= 0.

  Notation row := (row K).
  Notation range := (range K).
  Notation rcmp := (rcmp cmp).
  Notation sorted := (sorted K cmp).
  Notation rle := (rle K cmp).

  Definition min_le (a b : range) : Prop := cmp (r_min a) (r_min b) <= 0.
  Definition by_min (l : list range) : Prop := StronglySorted min_le l.

  (* every range of [s] ends strictly before every range of [s'] starts *)
  Definition seg_before (s s' : list range) : Prop :=
    forall a b, In a s -> In b s' -> cmp (r_max a) (r_min b) < 0.

  (** ** the sweep *)
  Lemma sweep_spec rest : forall cur curmax,
    (forall a, In a cur -> cmp (r_max a) curmax <= 0) -> by_min rest ->
    concat (sweep cmp cur curmax rest) = rev cur ++ rest /\
    ForallOrdPairs seg_before (sweep cmp cur curmax rest).
  Proof.
    induction rest as [|rr t IH]; intros cur curmax Hmax Hs; cbn [sweep].
    - cbn. split; [now rewrite app_nil_r|]. constructor; constructor.
    - inversion Hs as [|? ? Hs' Hf]; subst.
      destruct (Z.leb_spec (cmp (r_min rr) curmax) 0) as [Hov|Hno].
      + (* overlapping: the segment grows *)
        destruct (IH (rr :: cur) (if cmp (r_max rr) curmax >? 0 then r_max rr else curmax)) as [I1 I2]; auto.
        * intros a [<-|Ha].
          -- destruct (Z.gtb_spec (cmp (r_max rr) curmax) 0); [|lia].
             rewrite (cmp_refl K cmp cmp_opp). lia.
          -- destruct (Z.gtb_spec (cmp (r_max rr) curmax) 0) as [Hgt|]; [|auto].
             eapply cmp_trans; [apply Hmax; exact Ha|]. apply (cmp_ge_le K cmp cmp_opp). lia.
        * split; [|exact I2]. rewrite I1. cbn. now rewrite <- app_assoc.
      + (* the current segment ends strictly before rr starts *)
        destruct (IH [rr] (r_max rr)) as [I1 I2]; auto.
        * intros a [<-|[]]. rewrite (cmp_refl K cmp cmp_opp). lia.
        * split; [cbn [concat]; rewrite I1; reflexivity|].
          constructor; [|exact I2]. rewrite Forall_forall. intros s' Hs'' a b Ha Hb.
          assert (Hb' : In b (rr :: t)).
          { change (rr :: t) with (rev [rr] ++ t). rewrite <- I1. apply in_concat. eauto. }
          assert (Hrr : cmp (r_min rr) (r_min b) <= 0).
          { destruct Hb' as [<-|Hb']; [rewrite (cmp_refl K cmp cmp_opp); lia|].
            rewrite Forall_forall in Hf. exact (Hf b Hb'). }
          apply in_rev in Ha.
          (* r_max a <= curmax < r_min rr <= r_min b *)
          eapply (cmp_le_lt_trans K cmp cmp_opp cmp_trans); [apply Hmax; exact Ha|].
          eapply (cmp_lt_le_trans K cmp cmp_opp cmp_trans); [|exact Hrr].
          apply cmp_opp. lia.
  Qed.

  Theorem segments_sorted_spec rs : by_min rs ->
    concat (segments_sorted cmp rs) = rs /\ ForallOrdPairs seg_before (segments_sorted cmp rs).
  Proof.
    destruct rs as [|r t]; cbn [segments_sorted]; intros Hs.
    - split; [reflexivity|constructor].
    - inversion Hs; subst. apply (sweep_spec t [r] (r_max r)); auto.
      intros a [<-|[]]. rewrite (cmp_refl K cmp cmp_opp). lia.
  Qed.

  (** ** concatenating the merged segments *)
  Variable content : range -> list row.     (* the rows of each row group *)
  Variable merged : list range -> list row. (* what the merge of a segment delivers *)

  Definition true_bounds (rs : list range) : Prop :=
    forall rg r, In rg rs -> In r (content rg) ->
      cmp (r_min rg) (key r) <= 0 /\ cmp (key r) (r_max rg) <= 0.

  Definition merge_ok (seg : list range) : Prop :=
    sorted (merged seg) /\ Permutation (merged seg) (flat_map content seg).

  Lemma seg_before_rows rs s s' r r' :
    true_bounds rs -> incl s rs -> incl s' rs -> seg_before s s' ->
    In r (flat_map content s) -> In r' (flat_map content s') -> rle r r'.
  Proof.
    intros Hb Hi Hi' Hlt Hr Hr'. apply in_flat_map in Hr, Hr'.
    destruct Hr as [a [Ha Hra]], Hr' as [b [Hb' Hrb]].
    destruct (Hb a r (Hi _ Ha) Hra) as [_ H1]. destruct (Hb b r' (Hi' _ Hb') Hrb) as [H2 _].
    specialize (Hlt a b Ha Hb'). unfold AbstractProofs.rle, Model.rcmp.
    assert (cmp (key r) (r_min b) < 0) by (eapply (cmp_le_lt_trans K cmp cmp_opp cmp_trans); eauto).
    assert (cmp (key r) (key r') < 0) by (eapply (cmp_lt_le_trans K cmp cmp_opp cmp_trans); eauto).
    lia.
  Qed.

  Lemma concat_segments_sorted rs segs :
    true_bounds rs -> (forall s, In s segs -> incl s rs) ->
    ForallOrdPairs seg_before segs -> Forall merge_ok segs ->
    sorted (flat_map merged segs) /\
    Permutation (flat_map merged segs) (flat_map content (concat segs)).
  Proof.
    intros Hb Hincl Hord Hok. induction Hord as [|s segs Hf Hord IH]; cbn.
    - split; constructor.
    - inversion Hok as [|? ? [Hs Hp] Hok']; subst.
      destruct IH as [I1 I2]; auto. { intros; apply Hincl; now right. }
      split.
      + apply sorted_app; auto. intros a b Ha Hb'.
        apply in_flat_map in Hb'. destruct Hb' as [s' [Hs' Hb']].
        rewrite Forall_forall in Hf, Hok'. destruct (Hok' s' Hs') as [_ Hp'].
        eapply (seg_before_rows rs s s'); eauto.
        * apply Hincl. now left.
        * apply Hincl. now right.
        * now rewrite <- Hp.
        * now rewrite <- Hp'.
      + rewrite flat_map_app. apply Permutation_app; auto.
  Qed.

  (** the plan of MergeRowGroups: segments of the ranges sorted by min, each
      merged, concatenated in order *)
  Theorem segments_concat_sorted rs sorted_rs :
    Permutation rs sorted_rs -> by_min sorted_rs ->     (* what slices.SortFunc delivers *)
    true_bounds rs ->
    (forall seg, In seg (segments_sorted cmp sorted_rs) -> merge_ok seg) ->
    sorted (flat_map merged (segments_sorted cmp sorted_rs)) /\
    Permutation (flat_map merged (segments_sorted cmp sorted_rs)) (flat_map content rs).
  Proof.
    intros Hperm Hmin Hb Hok. destruct (segments_sorted_spec sorted_rs Hmin) as [S1 S2].
    assert (Hb' : true_bounds sorted_rs).
    { intros rg r Hrg Hr. apply (Hb rg r); auto. eapply Permutation_in; [symmetry; exact Hperm|exact Hrg]. }
    destruct (concat_segments_sorted sorted_rs (segments_sorted cmp sorted_rs)) as [C1 C2]; auto.
    - intros s Hs a Ha. rewrite <- S1. apply in_concat. eauto.
    - now apply Forall_forall.
    - split; [exact C1|]. rewrite C2, S1.
      clear - Hperm. induction Hperm; cbn; auto.
      + now apply Permutation_app_head.
      + rewrite !app_assoc. apply Permutation_app_tail. apply Permutation_app_comm.
      + etransitivity; eauto.
  Qed.

  (** ** the insertion sort of the model meets the contract assumed above *)
  Lemma ins_rev_spec x acc :
    StronglySorted (fun a b => min_le b a) acc ->
    StronglySorted (fun a b => min_le b a) (ins_rev K cmp x acc) /\ Permutation (x :: acc) (ins_rev K cmp x acc).
  Proof.
    induction 1 as [|y t Hs IH Hf]; cbn [ins_rev].
    - split; [repeat constructor|reflexivity].
    - destruct IH as [I1 I2]. destruct (Z.ltb_spec (cmp (r_min x) (r_min y)) 0) as [Hlt|Hge].
      + split.
        * constructor; [exact I1|]. rewrite Forall_forall in *. intros z Hz.
          apply (Permutation_in _ (Permutation_sym I2)) in Hz. destruct Hz as [<-|Hz]; [unfold min_le; lia|auto].
        * rewrite perm_swap. now apply perm_skip.
      + split; [|reflexivity]. constructor; [constructor; assumption|].
        assert (Hyx : min_le y x) by (apply (cmp_ge_le K cmp cmp_opp); lia).
        constructor; [exact Hyx|]. rewrite Forall_forall in *. intros z Hz.
        unfold min_le in *. eapply cmp_trans; [apply Hf; exact Hz|exact Hyx].
  Qed.

  Lemma sort_ranges_spec rs : Permutation rs (sort_ranges cmp rs) /\ by_min (sort_ranges cmp rs).
  Proof.
    unfold sort_ranges.
    assert (H : forall l acc, StronglySorted (fun a b => min_le b a) acc ->
              StronglySorted (fun a b => min_le b a) (fold_left (fun acc x => ins_rev K cmp x acc) l acc) /\
              Permutation (l ++ acc) (fold_left (fun acc x => ins_rev K cmp x acc) l acc)).
    { induction l as [|x l IH]; intros acc Hacc; cbn [fold_left app]; [split; auto|].
      destruct (ins_rev_spec x acc Hacc) as [I1 I2]. destruct (IH _ I1) as [J1 J2].
      split; [exact J1|]. rewrite <- J2. rewrite <- I2. apply Permutation_middle. }
    destruct (H rs [] ltac:(constructor)) as [H1 H2]. rewrite app_nil_r in H2. split.
    - etransitivity; [exact H2|apply Permutation_rev].
    - apply SS_rev. exact H1.
  Qed.

  Theorem segments_plan_sorted rs :
    true_bounds rs -> (forall seg, In seg (segments cmp rs) -> merge_ok seg) ->
    sorted (flat_map merged (segments cmp rs)) /\
    Permutation (flat_map merged (segments cmp rs)) (flat_map content rs).
  Proof.
    intros Hb Hok. destruct (sort_ranges_spec rs) as [S1 S2].
    exact (segments_concat_sorted rs (sort_ranges cmp rs) S1 S2 Hb Hok).
  Qed.
End Segments.
