(** Proofs about Merge/Nested.v: an input with computed rows forces a single
    segment; the witness of the defect repaired by commit 4f9d711. *)
From Coq Require Import List ZArith Bool Arith Lia Sorting.Sorted.
From PQ Require Import Merge.Model Merge.Instance Merge.Refine Merge.InstanceProofs Merge.Nested.
Import ListNotations.

Lemma combine_map_map {A B C : Type} (f : A -> B) (g : A -> C) (l : list A) :
  combine (map f l) (map g l) = map (fun x => (f x, g x)) l.
Proof. induction l as [|a l IH]; cbn; [reflexivity|now rewrite IH]. Qed.

Lemma some_computed_intro (xs : list ninput) (x : ninput) :
  In x xs -> n_computed x = true -> n_rows x <> [] ->
  some_computed (map n_rows xs) (map n_computed xs) = true.
Proof.
  intros Hin Hc Hr. unfold some_computed. rewrite combine_map_map. apply existsb_exists.
  exists (n_rows x, n_computed x). split.
  - apply in_map_iff. exists x. split; [reflexivity|exact Hin].
  - cbn. rewrite Hc. destruct (n_rows x); [contradiction|reflexivity].
Qed.

(* one non-empty input with computed rows: a single segment, every input, in argument order *)
Lemma nested_one_segment (cfg : list colcfg) (xs : list ninput) (x : ninput) :
  In x xs -> n_computed x = true -> n_rows x <> [] ->
  nested_segments false cfg xs = [List.seq 0 (length xs)].
Proof.
  intros Hin Hc Hr. unfold nested_segments. cbn [negb andb].
  now rewrite (some_computed_intro xs x Hin Hc Hr).
Qed.

Lemma refine_nested_one_piece cfg ins layouts cuts computed :
  some_computed ins computed = true ->
  (length (c09_refine_nested cfg ins layouts cuts computed) <= 1)%nat.
Proof.
  intros H. unfold c09_refine_nested. rewrite H.
  destruct (filter _ _); cbn; lia.
Qed.

(** ** the witness: merge (merge (A = 0..9, B = 4..5), C = 7..8) *)
Definition exn_cfg : list colcfg := [(false, false)].
Definition exn_A : list keyL := map (fun z => [Some z]) [0; 1; 2; 3; 4; 5; 6; 7; 8; 9]%Z.
Definition exn_B : list keyL := [[Some 4%Z]; [Some 5%Z]].
Definition exn_C : list keyL := [[Some 7%Z]; [Some 8%Z]].
Definition exn_AB : ninput := merged_input exn_cfg 64 [exn_A; exn_B].
Definition exn_inputs : list ninput := [exn_AB; (exn_C, None)].

Lemma exn_leaves_sorted :
  Forall (fun l => Sorted (fun a b => cmpL exn_cfg a b <= 0) l) [exn_A; exn_B; exn_C].
Proof. constructor; [|constructor; [|constructor; [|constructor]]]; apply sortedb_Sorted; reflexivity. Qed.

(* the inner merge delivers sorted rows: the inputs of the outer merge are sorted *)
Lemma exn_inputs_sorted :
  Forall (fun x => Sorted (fun a b => cmpL exn_cfg a b <= 0) (n_rows x)) exn_inputs.
Proof. constructor; [|constructor; [|constructor]]; apply sortedb_Sorted; vm_compute; reflexivity. Qed.

Lemma exn_AB_rows :
  n_rows exn_AB = map (fun z => [Some z]) [0; 1; 2; 3; 4; 4; 5; 5; 6; 7; 8; 9]%Z /\ n_computed exn_AB = true.
Proof. split; vm_compute; reflexivity. Qed.

(* pinned: the pages of the concatenated chunks [0..9][4..5] give the "bounds" 0 .. 5 of rows that go up to 9;
   C = 7..8 is taken for disjoint and concatenated *)
Lemma exn_pinned_plan :
  nested_segments true exn_cfg exn_inputs = [[0%nat]; [1%nat]] /\
  map (@key keyL) (nested_rows true exn_cfg 64 exn_inputs) =
    map (fun z => [Some z]) [0; 1; 2; 3; 4; 4; 5; 5; 6; 7; 8; 9; 7; 8]%Z.
Proof. split; vm_compute; reflexivity. Qed.

Lemma exn_pinned_not_sorted :
  ~ Sorted (fun a b => cmpL exn_cfg a b <= 0) (map (@key keyL) (nested_rows true exn_cfg 64 exn_inputs)).
Proof. rewrite <- sortedb_Sorted. vm_compute. discriminate. Qed.

Lemma exn_current_plan :
  nested_segments false exn_cfg exn_inputs = [[0%nat; 1%nat]] /\
  Sorted (fun a b => cmpL exn_cfg a b <= 0) (map (@key keyL) (nested_rows false exn_cfg 64 exn_inputs)) /\
  c09_refine_nested exn_cfg (map n_rows exn_inputs) [[[12%nat]]; [[2%nat]]] [true; true] (map n_computed exn_inputs)
    = [[(0%nat, 0%nat, 12%nat); (1%nat, 0%nat, 2%nat)]].
Proof.
  split; [vm_compute; reflexivity|]. split; [|vm_compute; reflexivity].
  apply sortedb_Sorted. vm_compute. reflexivity.
Qed.
