(** newCutLookups of merge_refine.go is conservative: every row at or after
    cutAbove(key) is strictly above [key], every row before cutBelow(key) is
    strictly below it -- for every page layout, whatever sort.Search finds.
    Also: the stable insertion sort is a sort, and the order of the events of
    refineSegment. *)
From Coq Require Import List ZArith Bool Arith Lia Sorting.Sorted Sorting.Permutation.
From PQ Require Import Merge.Model Merge.AbstractProofs Merge.Refine.
Import ListNotations.
Open Scope Z_scope.

(** ** sort.Search: without any assumption on [f], the index found is at most
    [n], [f] holds at it (if it is below [n]) and fails just before it *)
Lemma search_loop_spec n f : forall fuel i j,
  (i <= j <= n)%nat -> (j - i < fuel)%nat ->
  ((j < n)%nat -> f j = true) -> ((0 < i)%nat -> f (i - 1)%nat = false) ->
  let p := search_loop fuel f i j in
  (p <= n)%nat /\ ((p < n)%nat -> f p = true) /\ ((0 < p)%nat -> f (p - 1)%nat = false).
Proof.
  induction fuel as [|fu IH]; intros i j Hij Hf Hj Hi; [lia|].
  cbn [search_loop]. destruct (Nat.ltb_spec i j) as [Hlt|Hge].
  - assert (Hh : (i <= (i + j) / 2 < j)%nat).
    { pose proof (Nat.div_mod (i + j) 2). pose proof (Nat.mod_upper_bound (i + j) 2). lia. }
    destruct (f ((i + j) / 2)%nat) eqn:Ef.
    + apply IH; [lia|lia|intros _; exact Ef|exact Hi].
    + apply IH; [lia|lia|exact Hj|].
      intros _. replace ((i + j) / 2 + 1 - 1)%nat with ((i + j) / 2)%nat by lia. exact Ef.
  - cbn zeta. assert (i = j) by lia. subst. repeat split; [lia|exact Hj|exact Hi].
Qed.

Lemma search_spec n f :
  let p := search n f in
  (p <= n)%nat /\ ((p < n)%nat -> f p = true) /\ ((0 < p)%nat -> f (p - 1)%nat = false).
Proof. unfold search. apply search_loop_spec; lia. Qed.

(** ** the stable insertion sort sorts *)
Section StableSortProofs.
  Variable A : Type.
  Variable cmpf : A -> A -> Z.
  Hypothesis cmpf_opp : forall a b, cmpf a b < 0 <-> cmpf b a > 0.
  Hypothesis cmpf_trans : forall a b d, cmpf a b <= 0 -> cmpf b d <= 0 -> cmpf a d <= 0.

  Definition fle (a b : A) : Prop := cmpf a b <= 0.

  Lemma sinsert_perm x l : Permutation (x :: l) (sinsert cmpf x l).
  Proof.
    induction l as [|y t IH]; cbn; [reflexivity|]. destruct (cmpf y x <? 0); [|reflexivity].
    rewrite perm_swap. now constructor.
  Qed.

  Lemma ssort_perm l : Permutation l (ssort cmpf l).
  Proof.
    induction l as [|x l IH]; cbn; [reflexivity|]. rewrite <- sinsert_perm. now constructor.
  Qed.

  Lemma sinsert_sorted x l : StronglySorted fle l -> StronglySorted fle (sinsert cmpf x l).
  Proof.
    induction 1 as [|y t Hs IH Hf]; cbn; [repeat constructor|].
    rewrite Forall_forall in Hf. destruct (Z.ltb_spec (cmpf y x) 0) as [Hlt|Hge].
    - constructor; [exact IH|]. rewrite Forall_forall. intros z Hz.
      assert (Hz' : In z (x :: t)) by (eapply Permutation_in; [symmetry; apply sinsert_perm|exact Hz]).
      destruct Hz' as [<-|Hz']; [unfold fle; lia|auto].
    - assert (Hxy : fle x y). { unfold fle. pose proof (cmpf_opp x y). pose proof (cmpf_opp y x). lia. }
      constructor; [constructor; [exact Hs|now rewrite Forall_forall]|].
      rewrite Forall_forall. intros z [<-|Hz]; [exact Hxy|]. unfold fle in *. apply cmpf_trans with y; [exact Hxy|apply Hf; exact Hz].
  Qed.

  Lemma ssort_sorted l : StronglySorted fle (ssort cmpf l).
  Proof. induction l as [|x l IH]; cbn; [constructor|]. now apply sinsert_sorted. Qed.
End StableSortProofs.

Lemma SS_split {A} (R : A -> A -> Prop) pre x post :
  StronglySorted R (pre ++ x :: post) ->
  (forall a, In a pre -> R a x) /\ (forall b, In b post -> R x b) /\ (forall a b, In a pre -> In b post -> R a b).
Proof.
  induction pre as [|y pre IH]; cbn; intros H.
  - inversion H as [|? ? Hs Hf]; subst. rewrite Forall_forall in Hf. repeat split; auto; contradiction.
  - inversion H as [|? ? Hs Hf]; subst. rewrite Forall_forall in Hf. destruct (IH Hs) as [I1 [I2 I3]].
    repeat split.
    + intros a [<-|Ha]; [apply Hf; apply in_or_app; right; now left|auto].
    + exact I2.
    + intros a b [<-|Ha] Hb; [apply Hf; apply in_or_app; right; now right|auto].
Qed.

Section Cuts.
  Variable K : Type.
  Variable cmp : K -> K -> Z.
  Variable V : Type.
  Variable col0 : K -> V.
  Variable cmp0 : V -> V -> Z.
  Hypothesis cmp_opp : forall a b, cmp a b < 0 <-> cmp b a > 0.
  Hypothesis cmp_trans : forall a b d, cmp a b <= 0 -> cmp b d <= 0 -> cmp a d <= 0.
  Hypothesis cmp0_opp : forall a b, cmp0 a b < 0 <-> cmp0 b a > 0.
  Hypothesis cmp0_trans : forall a b d, cmp0 a b <= 0 -> cmp0 b d <= 0 -> cmp0 a d <= 0.
  (* "strict inequality on the first sort column implies strict inequality on the full sorting tuple" *)
  Hypothesis col0_strict : forall a b, cmp0 (col0 a) (col0 b) < 0 -> cmp a b < 0.

  Notation row := (row K).
  Notation sorted := (sorted K cmp).
  Notation target := (target K).

  (** the page statistics bound the rows of the page *)
  Lemma fold_min0 (g : row -> V) t : forall m,
    let r := fold_left (fun m x => min0 V cmp0 m (g x)) t m in
    cmp0 r m <= 0 /\ forall x, In x t -> cmp0 r (g x) <= 0.
  Proof.
    induction t as [|y t IH]; intros m; cbn [fold_left].
    - split; [rewrite (cmp_refl V cmp0 cmp0_opp); lia|contradiction].
    - destruct (IH (min0 V cmp0 m (g y))) as [I1 I2].
      assert (Hm : cmp0 (min0 V cmp0 m (g y)) m <= 0 /\ cmp0 (min0 V cmp0 m (g y)) (g y) <= 0).
      { unfold min0. destruct (Z.ltb_spec (cmp0 (g y) m) 0).
        - split; [lia|rewrite (cmp_refl V cmp0 cmp0_opp); lia].
        - split; [rewrite (cmp_refl V cmp0 cmp0_opp); lia|apply (cmp_ge_le V cmp0 cmp0_opp); lia]. }
      destruct Hm as [Hm1 Hm2]. split; [eapply cmp0_trans; eauto|].
      intros x [<-|Hx]; [eapply cmp0_trans; eauto|auto].
  Qed.

  Lemma fold_max0 (g : row -> V) t : forall m,
    let r := fold_left (fun m x => max0 V cmp0 m (g x)) t m in
    cmp0 m r <= 0 /\ forall x, In x t -> cmp0 (g x) r <= 0.
  Proof.
    induction t as [|y t IH]; intros m; cbn [fold_left].
    - split; [rewrite (cmp_refl V cmp0 cmp0_opp); lia|contradiction].
    - destruct (IH (max0 V cmp0 m (g y))) as [I1 I2].
      assert (Hm : cmp0 m (max0 V cmp0 m (g y)) <= 0 /\ cmp0 (g y) (max0 V cmp0 m (g y)) <= 0).
      { unfold max0. destruct (Z.gtb_spec (cmp0 (g y) m) 0).
        - split; [apply (cmp_ge_le V cmp0 cmp0_opp); lia|rewrite (cmp_refl V cmp0 cmp0_opp); lia].
        - split; [rewrite (cmp_refl V cmp0 cmp0_opp); lia|lia]. }
      destruct Hm as [Hm1 Hm2]. split; [eapply cmp0_trans; eauto|].
      intros x [<-|Hx]; [eapply cmp0_trans; eauto|auto].
  Qed.

  Lemma page_earliest_le pg e r : page_earliest K V col0 cmp0 pg = Some e -> In r pg -> cmp0 e (col0 (key r)) <= 0.
  Proof.
    destruct pg as [|r0 t]; [discriminate|]. cbn. intros E Hr. inversion E; subst. clear E.
    destruct (fold_min0 (fun x => col0 (key x)) t (col0 (key r0))) as [I1 I2].
    destruct Hr as [<-|Hr]; auto.
  Qed.

  Lemma page_latest_ge pg e r : page_latest K V col0 cmp0 pg = Some e -> In r pg -> cmp0 (col0 (key r)) e <= 0.
  Proof.
    destruct pg as [|r0 t]; [discriminate|]. cbn. intros E Hr. inversion E; subst. clear E.
    destruct (fold_max0 (fun x => col0 (key x)) t (col0 (key r0))) as [I1 I2].
    destruct Hr as [<-|Hr]; auto.
  Qed.

  (** lists of pages *)
  Lemma skipn_concat_pages (pages : list (list row)) p :
    skipn (length (concat (firstn p pages))) (concat pages) = concat (skipn p pages).
  Proof.
    rewrite <- (firstn_skipn p pages) at 2. rewrite concat_app.
    rewrite skipn_app, skipn_all, Nat.sub_diag. reflexivity.
  Qed.

  Lemma firstn_concat_pages (pages : list (list row)) p :
    firstn (length (concat (firstn p pages))) (concat pages) = concat (firstn p pages).
  Proof.
    rewrite <- (firstn_skipn p pages) at 2. rewrite concat_app.
    rewrite firstn_app, firstn_all, Nat.sub_diag. cbn. now rewrite app_nil_r.
  Qed.

  Lemma skipn_nth_cons {A} (l : list A) p d : (p < length l)%nat -> skipn p l = nth p l d :: skipn (S p) l.
  Proof.
    revert p; induction l as [|x l IH]; intros [|p] H; cbn in *; try lia; auto. apply IH. lia.
  Qed.

  Lemma firstn_S_snoc {A} (l : list A) p d : (p < length l)%nat -> firstn (S p) l = firstn p l ++ [nth p l d].
  Proof.
    revert p; induction l as [|x l IH]; intros [|p] H; cbn in *; try lia; auto. f_equal. apply IH. lia.
  Qed.

  Section OneTarget.
    Variable t : target.
    Hypothesis t_sorted : sorted (t_rows t).
    Hypothesis t_pages_ne : Forall (fun pg => pg <> []) (t_pages t).

    Lemma page_ne p : (p < length (t_pages t))%nat -> nth p (t_pages t) [] <> [].
    Proof. intros H. rewrite Forall_forall in t_pages_ne. apply t_pages_ne. now apply nth_In. Qed.

    Lemma cut_above_eq strict k :
      exists p, (p <= length (t_pages t))%nat /\
        cut_above_gen K V col0 cmp0 strict t k =
          (if (p <? length (t_pages t))%nat then first_row_index K t p else num_rows t) /\
        ((p < length (t_pages t))%nat ->
           match earliest K V col0 cmp0 t p with
           | Some e => if strict then cmp0 e (col0 k) > 0 else cmp0 e (col0 k) >= 0
           | None => False
           end).
    Proof.
      unfold cut_above_gen. set (f := fun p => match earliest K V col0 cmp0 t p with Some e => _ | None => false end).
      destruct (search_spec (length (t_pages t)) f) as [Hle [Htrue _]].
      set (p := search (length (t_pages t)) f) in *. exists p. split; [exact Hle|]. split.
      - destruct (Nat.eqb_spec p 0) as [E|Hne].
        + rewrite E. destruct (Nat.ltb_spec 0 (length (t_pages t))) as [|H0]; [reflexivity|].
          unfold num_rows, t_rows. destruct (t_pages t); [reflexivity|cbn in H0; lia].
        + unfold page_end. replace (p - 1 + 1)%nat with p by lia. reflexivity.
      - intros Hlt. specialize (Htrue Hlt). unfold f in Htrue.
        destruct (earliest K V col0 cmp0 t p); [|discriminate]. destruct strict.
        + apply Z.gtb_lt in Htrue. lia.
        + apply Z.geb_le in Htrue. lia.
    Qed.

    (** cutAbove: every row at or after the cut is strictly above [k] *)
    Theorem cut_above_safe k r :
      In r (skipn (cut_above_gen K V col0 cmp0 true t k) (t_rows t)) -> cmp k (key r) < 0.
    Proof.
      destruct (cut_above_eq true k) as [p [Hle [-> Hp]]].
      destruct (Nat.ltb_spec p (length (t_pages t))) as [Hlt|Hge].
      - specialize (Hp Hlt). unfold first_row_index, t_rows. rewrite skipn_concat_pages.
        rewrite (skipn_nth_cons _ _ [] Hlt). cbn [concat].
        unfold earliest in Hp. pose proof (page_ne p Hlt) as Hne.
        destruct (nth p (t_pages t) []) as [|r0 pg] eqn:Epg; [contradiction|].
        destruct (page_earliest K V col0 cmp0 (r0 :: pg)) as [e|] eqn:Ee; [|contradiction].
        intros Hr.
        assert (Hs : sorted ((r0 :: pg) ++ concat (skipn (S p) (t_pages t)))).
        { pose proof (sorted_skipn K cmp (length (concat (firstn p (t_pages t)))) _ t_sorted) as H.
          unfold t_rows in H. rewrite skipn_concat_pages, (skipn_nth_cons _ _ [] Hlt), Epg in H. exact H. }
        assert (H0 : cmp k (key r0) < 0).
        { apply col0_strict. pose proof (page_earliest_le _ _ r0 Ee (or_introl eq_refl)) as H1.
          apply (cmp_lt_le_trans V cmp0 cmp0_opp cmp0_trans) with e; [|exact H1].
          apply cmp0_opp. lia. }
        apply (cmp_lt_le_trans K cmp cmp_opp cmp_trans) with (key r0); [exact H0|].
        exact (sorted_head_le K cmp cmp_opp _ _ _ Hs Hr).
      - unfold num_rows. rewrite skipn_all. contradiction.
    Qed.

    (** cutBelow: every row before the cut is strictly below [k] *)
    Theorem cut_below_safe k r :
      In r (firstn (cut_below K V col0 cmp0 t k) (t_rows t)) -> cmp (key r) k < 0.
    Proof.
      unfold cut_below. set (n := length (t_pages t)).
      set (f := fun p => match latest K V col0 cmp0 t p with Some e => cmp0 e (col0 k) >=? 0 | None => false end).
      destruct (search_spec n f) as [Hle [_ Hfalse]]. set (p := search n f) in *.
      assert (Hin : In r (firstn (if (p =? n)%nat then num_rows t else first_row_index K t p) (t_rows t)) ->
                    In r (concat (firstn p (t_pages t)))).
      { destruct (Nat.eqb_spec p n) as [E|_].
        - unfold num_rows. rewrite firstn_all. unfold t_rows. rewrite E. unfold n. now rewrite firstn_all.
        - unfold first_row_index, t_rows. now rewrite firstn_concat_pages. }
      intros Hr. apply Hin in Hr. clear Hin.
      destruct p as [|q]; [contradiction|].
      assert (Hq : (q < n)%nat) by lia.
      specialize (Hfalse (Nat.lt_0_succ q)). replace (S q - 1)%nat with q in Hfalse by lia.
      unfold f, latest in Hfalse. pose proof (page_ne q Hq) as Hne.
      destruct (nth q (t_pages t) []) as [|r0 pg] eqn:Epg; [contradiction|].
      destruct (page_latest K V col0 cmp0 (r0 :: pg)) as [e|] eqn:Ee; [|discriminate].
      assert (He : cmp0 e (col0 k) < 0) by (destruct (Z.geb_spec (cmp0 e (col0 k)) 0); [discriminate|lia]).
      assert (Hpage : forall x, In x (r0 :: pg) -> cmp (key x) k < 0).
      { intros x Hx. apply col0_strict. apply (cmp_le_lt_trans V cmp0 cmp0_opp cmp0_trans) with e; [|exact He].
        eapply page_latest_ge; eauto. }
      rewrite (firstn_S_snoc _ _ [] Hq), Epg, concat_app in Hr. cbn [concat] in Hr. rewrite app_nil_r in Hr.
      apply in_app_or in Hr. destruct Hr as [Hr|Hr]; [|now apply Hpage].
      (* an earlier page: below the first row of page q *)
      apply (cmp_le_lt_trans K cmp cmp_opp cmp_trans) with (key r0); [|apply Hpage; now left].
      pose proof (sorted_firstn K cmp (length (concat (firstn (S q) (t_pages t)))) _ t_sorted) as Hs.
      unfold t_rows in Hs. rewrite firstn_concat_pages, (firstn_S_snoc _ _ [] Hq), Epg, concat_app in Hs.
      cbn [concat] in Hs. rewrite app_nil_r in Hs.
      apply (sorted_app_inv K cmp) in Hs. destruct Hs as [_ [_ Hs]]. apply Hs; [exact Hr|now left].
    Qed.
  End OneTarget.
End Cuts.
