(** Progress of the merge readers: a ReadRows call with room returns at least
    one row or io.EOF (mergedRowReader2 and mergedRowReader), so a merge
    terminates: after at most one call per row of the inputs and one more,
    io.EOF has been reported. *)
From Coq Require Import List ZArith Bool Arith Lia Sorting.Sorted Sorting.Permutation.
From PQ Require Import Generated.Consts Merge.Model Merge.AbstractProofs Merge.RunLengthProofs
  Merge.Merge2Proofs Merge.TreeProofs.
Import ListNotations.
Open Scope Z_scope.

Section Progress.
  Variable K : Type.
  Variable cmp : K -> K -> Z.
  Hypothesis cmp_opp : forall a b, cmp a b < 0 <-> cmp b a > 0.
  Hypothesis cmp_trans : forall a b d, cmp a b <= 0 -> cmp b d <= 0 -> cmp a d <= 0.

  Notation row := (row K).
  Notation buf := (buf K).
  Notation sorted := (sorted K cmp).
  Notation sched := (sched cmp).
  Notation no_buf := (no_buf K).

  (* the scheduler only moves rows *)
  Lemma sched_length st out st' : sched st out st' ->
    length (concat st) = (length out + length (concat st'))%nat.
  Proof.
    induction 1 as [st|st i r t out st' Hi Hh Hrun IH]; [reflexivity|].
    pose proof (Permutation_length (concat_upd_perm _ _ _ _ Hi)) as Hp. cbn [length] in *. lia.
  Qed.

  (** ** mergedRowReader2 *)
  Lemma emit_run_nonempty room (b : buf) bound h t :
    b_win b = h :: t -> (1 <= room)%nat -> fst (emit_run K cmp room b bound) <> [].
  Proof.
    intros Hw Hr. unfold emit_run. rewrite Hw. destruct room as [|room]; [lia|]. cbn [firstn fst].
    destruct (firstn room t); cbn; discriminate.
  Qed.

  Lemma loop2_progress f room (b0 b1 : buf) prev streak h0 t0 h1 t1 :
    b_win b0 = h0 :: t0 -> b_win b1 = h1 :: t1 -> (1 <= room)%nat ->
    fst (fst (fst (fst (loop2 K cmp (S f) room b0 b1 prev streak)))) <> [].
  Proof.
    intros H0 H1 Hr. cbn [loop2]. destruct (Nat.eqb_spec room 0) as [|_]; [lia|]. rewrite H0, H1.
    destruct (rcmp cmp h0 h1 <? 0).
    - pose proof (emit_run_nonempty room b0 h1 h0 t0 H0 Hr) as Hne.
      destruct (if (if prev <? 0 then streak + 1 else 0) >=? run_streak
                then emit_run K cmp room b0 h1 else ([h0], advance b0 1)) as [em b0'] eqn:Eem.
      assert (Hem : em <> []).
      { destruct ((if prev <? 0 then streak + 1 else 0) >=? run_streak).
        - rewrite Eem in Hne. exact Hne.
        - inversion Eem; subst. discriminate. }
      destruct (has_next b0'); [|exact Hem].
      destruct (loop2 K cmp f (room - length em) b0' b1 (-1) _) as [[[[out x0] x1] p] s]. cbn [fst].
      destruct em; [contradiction|discriminate].
    - destruct (rcmp cmp h0 h1 >? 0).
      + pose proof (emit_run_nonempty room b1 h0 h1 t1 H1 Hr) as Hne.
        destruct (if (if prev >? 0 then streak + 1 else 0) >=? run_streak
                  then emit_run K cmp room b1 h0 else ([h1], advance b1 1)) as [em b1'] eqn:Eem.
        assert (Hem : em <> []).
        { destruct ((if prev >? 0 then streak + 1 else 0) >=? run_streak).
          - rewrite Eem in Hne. exact Hne.
          - inversion Eem; subst. discriminate. }
        destruct (has_next b1'); [|exact Hem].
        destruct (loop2 K cmp f (room - length em) b0 b1' 1 _) as [[[[out x0] x1] p] s]. cbn [fst].
        destruct em; [contradiction|discriminate].
      + destruct (1 <? room)%nat; [|discriminate].
        destruct (has_next (advance b0 1) && has_next (advance b1 1)); [|discriminate].
        destruct (loop2 K cmp f (room - 2) (advance b0 1) (advance b1 1) 0 0) as [[[[out x0] x1] p] s].
        discriminate.
  Qed.

  (** a call with room returns a row or io.EOF *)
  Theorem read_rows2_progress (m : m2 K) n out eof m' :
    (1 <= n)%nat -> read_rows2 K cmp m n = (out, eof, m') -> out <> [] \/ eof = true.
  Proof.
    intros Hn H. unfold read_rows2 in H.
    destruct (refill_spec K (m_r0 m)) as [_ R0]. destruct (refill_spec K (m_r1 m)) as [_ R1].
    destruct (refill K (m_r0 m)) as [b0|]; destruct (refill K (m_r1 m)) as [b1|].
    - specialize (R0 b0 eq_refl). specialize (R1 b1 eq_refl).
      destruct (b_win b0) as [|h0 t0] eqn:E0; [contradiction|]. destruct (b_win b1) as [|h1 t1] eqn:E1; [contradiction|].
      destruct n as [|f]; [lia|].
      pose proof (loop2_progress f (S f) b0 b1 (m_prev m) (m_streak m) h0 t0 h1 t1 E0 E1 Hn) as Hp.
      destruct (loop2 K cmp (S f) (S f) b0 b1 (m_prev m) (m_streak m)) as [[[[o x0] x1] p] s].
      inversion H; subst. left. exact Hp.
    - specialize (R0 b0 eq_refl). unfold drain in H. inversion H; subst. left.
      destruct (b_win b0) as [|h0 t0]; [contradiction|]. destruct n; [lia|]. cbn. discriminate.
    - specialize (R1 b1 eq_refl). unfold drain in H. inversion H; subst. left.
      destruct (b_win b1) as [|h1 t1]; [contradiction|]. destruct n; [lia|]. cbn. discriminate.
    - inversion H; subst. now right.
  Qed.

  Lemma run2_progress batches : forall (m : m2 K) outs eof m',
    Forall (fun n => (1 <= n)%nat) batches -> run2 K cmp m batches = (outs, eof, m') ->
    eof = true \/ (length batches <= length (concat outs))%nat.
  Proof.
    induction batches as [|n t IH]; intros m outs eof m' Hb H; cbn [run2] in H.
    - inversion H; subst. right. cbn. lia.
    - inversion Hb as [|? ? Hn Ht]; subst.
      destruct (read_rows2 K cmp m n) as [[out e] m1] eqn:Er.
      destruct (read_rows2_progress _ _ _ _ _ Hn Er) as [Hne|He].
      + destruct e; [inversion H; subst; now left|].
        destruct (run2 K cmp m1 t) as [[outs' e'] m2'] eqn:Et. inversion H; subst.
        destruct (IH _ _ _ _ Ht Et) as [I|I]; [now left|right].
        cbn [concat length]. rewrite app_length. destruct out; [contradiction|cbn [length]; lia].
      + subst e. inversion H; subst. now left.
  Qed.

  (** the two-way merge terminates: with more calls than rows, each with
      room, io.EOF is reported *)
  Theorem merge2_terminates in0 in1 ch0 ch1 batches outs eof m' :
    sorted in0 -> sorted in1 -> Forall (fun n => (1 <= n)%nat) batches ->
    (length in0 + length in1 < length batches)%nat ->
    merge2 cmp in0 in1 ch0 ch1 batches = (outs, eof, m') -> eof = true.
  Proof.
    intros Hs0 Hs1 Hb Hlen H.
    assert (R : sched (st2 K in0 in1) (concat outs) (abs2 K m')) by (eapply (merge2_refines K cmp); eauto).
    apply sched_length in R. cbn [concat st2 length] in R. rewrite app_nil_r, app_length in R.
    unfold merge2 in H. destruct (run2_progress _ _ _ _ _ Hb H) as [E|E]; [exact E|lia].
  Qed.

  (** ** mergedRowReader *)

  (* when the winner has a buffered row and there is room, the row is emitted *)
  Lemma loopk_head f room (m : mk K) h t :
    (room =? 0)%nat || (k_count m =? 0)%nat = false ->
    b_win (nth (Z.to_nat (k_winner m)) (k_bufs m) no_buf) = h :: t ->
    exists o e m', loopk K cmp (S f) room m = (h :: o, e, m').
  Proof.
    intros H1 H2. cbn [loopk]. rewrite H1, H2.
    destruct (negb (has_next (advance (nth (Z.to_nat (k_winner m)) (k_bufs m) no_buf) 1))); [eauto|].
    destruct (k_streak m >=? run_streak).
    - destruct (run_loop K cmp (S room) (room - 1) _ _) as [[em c''] returned].
      destruct returned; [eauto|]. destruct (loopk K cmp f _ _) as [[out e] mf]. eauto.
    - destruct (loopk K cmp f (room - 1) _) as [[out e] mf]. eauto.
  Qed.

  (* the heads the invariant speaks of are the heads of the buffers *)
  Definition Full (m : mk K) : Prop := KInv K cmp m (heads K (k_bufs m)).

  Lemma loopk_full_progress f room (m : mk K) out eof m' :
    Full m -> (1 <= room)%nat -> loopk K cmp (S f) room m = (out, eof, m') -> out <> [] \/ eof = true.
  Proof.
    intros [P _] Hr H. set (hd := heads K (k_bufs m)) in *. destruct ((room =? 0)%nat || (k_count m =? 0)%nat) eqn:Estop.
    - cbn [loopk] in H. rewrite Estop in H. inversion H; subst. right.
      destruct (Nat.eqb_spec room 0); [lia|]. exact Estop.
    - apply orb_false_iff in Estop. destruct Estop as [E1 E2]. apply Nat.eqb_neq in E2.
      assert (Hwin : exists wn, k_winner m = Z.of_nat wn /\ (wn < length (k_bufs m))%nat /\ hd wn <> None) by (eapply (kpre_winner K cmp); eauto).
      destruct Hwin as [wn [Hw [Hlt Hal]]].
      unfold hd in Hal. rewrite heads_win in Hal.
      destruct (b_win (nth wn (k_bufs m) no_buf)) as [|h t] eqn:Ew; [congruence|].
      destruct (loopk_head f room m h t) as [o [e [mf E]]].
      + rewrite E1. cbn. now apply Nat.eqb_neq.
      + now rewrite Hw, Nat2Z.id.
      + rewrite E in H. inversion H; subst. left. discriminate.
  Qed.

  Lemma loopk_progress f room (m : mk K) hd out eof m' :
    KInv K cmp m hd -> (1 <= room)%nat -> loopk K cmp (S (S f)) room m = (out, eof, m') -> out <> [] \/ eof = true.
  Proof.
    intros [P Ihdw] Hr H. destruct ((room =? 0)%nat || (k_count m =? 0)%nat) eqn:Estop.
    - cbn [loopk] in H. rewrite Estop in H. inversion H; subst. right.
      destruct (Nat.eqb_spec room 0); [lia|]. exact Estop.
    - pose proof Estop as Estop'. apply orb_false_iff in Estop'. destruct Estop' as [E1 E2]. apply Nat.eqb_neq in E2.
      assert (Hwin : exists wn, k_winner m = Z.of_nat wn /\ (wn < length (k_bufs m))%nat /\ hd wn <> None) by (eapply (kpre_winner K cmp); eauto).
      destruct Hwin as [wn [Hw [Hlt Hal]]].
      pose proof (kp_sorted K cmp _ _ P wn) as Hsc.
      destruct (b_win (nth wn (k_bufs m) no_buf)) as [|h t] eqn:Ew.
      + (* the winner's buffer is exhausted: one iteration repopulates or drops it *)
        remember (S f) as f1 eqn:Ef1. cbn [loopk] in H. rewrite Estop, Hw, Nat2Z.id, Ew in H.
        set (c := nth wn (k_bufs m) no_buf) in *.
        destruct (buf_read c) as [c'|] eqn:Er.
        * destruct (buf_read_some K c c' Er Ew) as [Hrem Hne].
          set (m1 := set_buf K m wn c') in *.
          assert (P1 : KPre K cmp m1 hd).
          { apply (kpre_set_buf K cmp); auto. rewrite Hrem. exact Hsc. }
          assert (Hc1 : nth wn (k_bufs m1) no_buf = c') by (unfold m1; cbn; apply nth_upd_same; exact Hlt).
          assert (I2 : KInv K cmp (replay K cmp m1) (heads K (k_bufs m1))).
          { eapply (replay_alive K cmp); eauto. rewrite Hc1. exact Hne. }
          assert (F2 : Full (replay K cmp m1)) by (unfold Full; rewrite replay_bufs; exact I2).
          subst f1. match type of H with loopk K cmp (S f) room ?mm = _ =>
            assert (F3 : Full mm) by (destruct (_ =? _); [exact F2|apply (kinv_set_streak K cmp); exact F2]) end.
          exact (loopk_full_progress _ _ _ _ _ _ F3 Hr H).
        * pose proof (buf_read_none K c Er) as Hsrc.
          assert (Hrem : remaining c = []) by (unfold remaining; now rewrite Ew, Hsrc).
          assert (I2 : KInv K cmp (replay K cmp (mkMK K (k_bufs m) (k_losers m) (k_count m - 1) (-1) (k_leaf m) (k_streak m)))
                            (heads K (k_bufs m))) by (eapply (replay_dead K cmp); eauto).
          match type of I2 with KInv K cmp (replay K cmp ?m0) _ =>
            assert (F2 : Full (replay K cmp m0)) by (unfold Full; rewrite replay_bufs; exact I2) end.
          subst f1. match type of H with loopk K cmp (S f) room ?mm = _ =>
            assert (F3 : Full mm) by (destruct (_ =? _); [exact F2|apply (kinv_set_streak K cmp); exact F2]) end.
          exact (loopk_full_progress _ _ _ _ _ _ F3 Hr H).
      + destruct (loopk_head (S f) room m h t Estop) as [o [e [mf E]]]; [now rewrite Hw, Nat2Z.id|].
        rewrite E in H. inversion H; subst. left. discriminate.
  Qed.

  (** a call with room returns a row or io.EOF *)
  Theorem read_rowsk_progress (m : mk K) n out eof m' :
    KTop K cmp m -> (1 <= n)%nat -> read_rowsk K cmp m n = (out, eof, m') -> out <> [] \/ eof = true.
  Proof.
    unfold read_rowsk. intros [[Hc He]|[hd I]] Hn H.
    - replace (2 * n + 2)%nat with (S (2 * n + 1)) in H by lia. cbn [loopk] in H.
      rewrite Hc, Nat.eqb_refl, orb_true_r in H. inversion H; subst. now right.
    - replace (2 * n + 2)%nat with (S (S (2 * n))) in H by lia. exact (loopk_progress _ _ _ _ _ _ _ I Hn H).
  Qed.

  Lemma runk_progress batches : forall (m : mk K) outs eof m',
    KTop K cmp m -> Forall (fun n => (1 <= n)%nat) batches -> runk K cmp m batches = (outs, eof, m') ->
    eof = true \/ (length batches <= length (concat outs))%nat.
  Proof.
    induction batches as [|n t IH]; intros m outs eof m' I Hb H; cbn [runk] in H.
    - inversion H; subst. right. cbn. lia.
    - inversion Hb as [|? ? Hn Ht]; subst.
      destruct (read_rowsk K cmp m n) as [[out e] m1] eqn:Er.
      assert (I1 : KTop K cmp m1) by (eapply (read_rowsk_refines K cmp); eauto).
      destruct (read_rowsk_progress _ _ _ _ _ I Hn Er) as [Hne|He].
      + destruct e; [inversion H; subst; now left|].
        destruct (runk K cmp m1 t) as [[outs' e'] m2] eqn:Et. inversion H; subst.
        destruct (IH _ _ _ _ I1 Ht Et) as [J|J]; [now left|right].
        cbn [concat length]. rewrite app_length. destruct out; [contradiction|cbn [length]; lia].
      + subst e. inversion H; subst. now left.
  Qed.

  Lemma runk_top batches : forall (m : mk K) outs eof m',
    KTop K cmp m -> runk K cmp m batches = (outs, eof, m') -> KTop K cmp m'.
  Proof.
    induction batches as [|n t IH]; intros m outs eof m' I H; cbn [runk] in H.
    - inversion H; subst. exact I.
    - destruct (read_rowsk K cmp m n) as [[out e] m1] eqn:Er.
      assert (I1 : KTop K cmp m1) by (eapply (read_rowsk_refines K cmp); eauto).
      destruct e; [inversion H; subst; exact I1|].
      destruct (runk K cmp m1 t) as [[outs' e'] m2] eqn:Et. inversion H; subst. eauto.
  Qed.

  (** after any history of ReadRows calls on a merge of sorted inputs, the
      next call with room returns a row or io.EOF *)
  Theorem mergek_progress ins chunks history outs eof m' n out e m'' :
    Forall sorted ins -> mergek cmp ins chunks history = (outs, eof, m') ->
    (1 <= n)%nat -> read_rowsk K cmp m' n = (out, e, m'') -> out <> [] \/ e = true.
  Proof.
    intros Hs H Hn Hr. unfold mergek in H. destruct (sources_spec K ins chunks) as [S1 S2].
    assert (I : KTop K cmp (mk_init K cmp (sources ins chunks))).
    { eapply (mk_init_inv K cmp); eauto.
      intros b Hin. rewrite Forall_forall in Hs. apply Hs. rewrite <- S2. now apply in_map. }
    exact (read_rowsk_progress _ _ _ _ _ (runk_top _ _ _ _ _ I H) Hn Hr).
  Qed.

  (** the k-way merge terminates *)
  Theorem mergek_terminates ins chunks batches outs eof m' :
    Forall sorted ins -> Forall (fun n => (1 <= n)%nat) batches ->
    (length (concat ins) < length batches)%nat ->
    mergek cmp ins chunks batches = (outs, eof, m') -> eof = true.
  Proof.
    intros Hs Hb Hlen H.
    assert (R : sched ins (concat outs) (absk K m')) by (eapply (mergek_refines K cmp); eauto).
    apply sched_length in R.
    unfold mergek in H. destruct (sources_spec K ins chunks) as [S1 S2].
    assert (I : KTop K cmp (mk_init K cmp (sources ins chunks))).
    { eapply (mk_init_inv K cmp); eauto.
      intros b Hin. rewrite Forall_forall in Hs. apply Hs. rewrite <- S2. now apply in_map. }
    destruct (runk_progress _ _ _ _ _ I Hb H) as [E|E]; [exact E|lia].
  Qed.
End Progress.
