(** Proofs about makeAAD and the ordinal bookkeeping of writer and reader
    (Aad/Model.v). *)
From Coq Require Import List ZArith NArith Bool Arith Lia.
From Coq Require Import ZifyN ZifyNat ZifyBool.
From PQ Require Import Base.Bytes Generated.Consts Aad.Model.
Import ListNotations.

(** * Lists *)
Lemma app_eq_len {A} (a a' b b' : list A) :
  length a = length a' -> a ++ b = a' ++ b' -> a = a' /\ b = b'.
Proof.
  revert a'. induction a as [|x a IH]; intros [|y a'] Hl H; cbn in *; try discriminate.
  - split; [reflexivity|exact H].
  - injection H as -> H. injection Hl as Hl. destruct (IH _ Hl H) as [-> ->]. split; reflexivity.
Qed.

(** * le16 *)
Definition in_ord (z : Z) : Prop := (0 <= z < 65536)%Z.

Lemma wrapZ16_small z : in_ord z -> wrapZ 16 z = Z.to_N z.
Proof.
  intros [H0 H1]. unfold wrapZ. change (2 ^ Z.of_N 16)%Z with 65536%Z.
  rewrite Z.mod_small by lia. reflexivity.
Qed.

Lemma wrapZ16_lt z : (wrapZ 16 z < 65536)%N.
Proof. pose proof (wrapZ_lt 16 z) as H. change (2 ^ 16)%N with 65536%N in H. exact H. Qed.

Lemma le16_length z : length (le16 z) = 2%nat.
Proof. apply to_le_length. Qed.

Lemma le16_inj_pat a b : le16 a = le16 b -> wrapZ 16 a = wrapZ 16 b.
Proof.
  unfold le16. intros H.
  assert (Ha : of_le (to_le 2 (wrapZ 16 a)) = wrapZ 16 a).
  { apply of_le_to_le. change (256 ^ N.of_nat 2)%N with 65536%N. apply wrapZ16_lt. }
  assert (Hb : of_le (to_le 2 (wrapZ 16 b)) = wrapZ 16 b).
  { apply of_le_to_le. change (256 ^ N.of_nat 2)%N with 65536%N. apply wrapZ16_lt. }
  rewrite <- Ha, <- Hb, H. reflexivity.
Qed.

Lemma le16_inj a b : in_ord a -> in_ord b -> le16 a = le16 b -> a = b.
Proof.
  intros Ha Hb H. apply le16_inj_pat in H.
  rewrite (wrapZ16_small a Ha), (wrapZ16_small b Hb) in H.
  unfold in_ord in *. lia.
Qed.

(** int16 wrap-around: ordinals 65536 apart give the same two bytes. *)
Lemma wrapZ16_add z : wrapZ 16 (z + 65536) = wrapZ 16 z.
Proof.
  unfold wrapZ. change (2 ^ Z.of_N 16)%Z with 65536%Z.
  replace (z + 65536)%Z with (z + 1 * 65536)%Z by lia.
  rewrite Z.mod_add by lia. reflexivity.
Qed.

Lemma le16_wrap z : le16 (z + 65536) = le16 z.
Proof. unfold le16. now rewrite wrapZ16_add. Qed.

Lemma flat_le16_length l : length (flat_map le16 l) = (2 * length l)%nat.
Proof. induction l as [|z l IH]; cbn [flat_map length]; [reflexivity|]. rewrite app_length, le16_length, IH. lia. Qed.

Lemma flat_le16_inj l l' :
  length l = length l' -> Forall in_ord l -> Forall in_ord l' ->
  flat_map le16 l = flat_map le16 l' -> l = l'.
Proof.
  revert l'. induction l as [|z l IH]; intros [|z' l'] Hl Hr Hr' H; cbn in Hl; try discriminate.
  - reflexivity.
  - cbn [flat_map] in H. inversion Hr; inversion Hr'; subst.
    apply app_eq_len in H; [|now rewrite !le16_length]. destruct H as [Hz Ht].
    f_equal; [apply le16_inj; assumption|]. apply IH; auto.
Qed.

(** * Module types *)
Lemma mtype_byte_inj m m' : mtype_byte m = mtype_byte m' -> m = m'.
Proof. destruct m, m'; intros H; try reflexivity; vm_compute in H; discriminate. Qed.

Lemma mtype_eqb_eq m m' : mtype_eqb m m' = true <-> m = m'.
Proof.
  split.
  - destruct m, m'; intros H; try reflexivity; vm_compute in H; discriminate.
  - intros ->. unfold mtype_eqb. apply Z.eqb_refl.
Qed.

Lemma mtype_of_code_code m : mtype_of_code (mtype_code m) = Some m.
Proof. destruct m; vm_compute; reflexivity. Qed.

Lemma mtype_byte_lt m : (mtype_byte m < 256)%N.
Proof. destruct m; vm_compute; reflexivity. Qed.

(** * makeAAD is injective *)
Definition used_ordinals (m : mtype) (rg col pg : Z) : list Z := firstn (mtype_arity m) [rg; col; pg].

Lemma used_ordinals_length m rg col pg : length (used_ordinals m rg col pg) = mtype_arity m.
Proof. destruct m; reflexivity. Qed.

Lemma used_ordinals_in_ord m rg col pg :
  in_ord rg -> in_ord col -> in_ord pg -> Forall in_ord (used_ordinals m rg col pg).
Proof. intros; destruct m; cbn; repeat (constructor; try assumption). Qed.

Theorem make_aad_injective pfx fu pfx' fu' m m' rg col pg rg' col' pg' :
  length pfx = length pfx' -> length fu = length fu' ->
  in_ord rg -> in_ord col -> in_ord pg -> in_ord rg' -> in_ord col' -> in_ord pg' ->
  make_aad pfx fu m rg col pg = make_aad pfx' fu' m' rg' col' pg' ->
  pfx = pfx' /\ fu = fu' /\ m = m' /\ used_ordinals m rg col pg = used_ordinals m' rg' col' pg'.
Proof.
  intros Hp Hf H1 H2 H3 H4 H5 H6 H. unfold make_aad, make_aad_raw in H.
  apply app_eq_len in H; [|exact Hp]. destruct H as [-> H].
  apply app_eq_len in H; [|exact Hf]. destruct H as [-> H].
  cbn [app] in H. injection H as Hm H. apply mtype_byte_inj in Hm. subst m'.
  repeat split; try reflexivity.
  apply flat_le16_inj; auto using used_ordinals_in_ord.
  now rewrite !used_ordinals_length.
Qed.

Theorem make_aad_page_wraps pfx fu m rg col pg :
  make_aad pfx fu m rg col (pg + 65536) = make_aad pfx fu m rg col pg.
Proof.
  unfold make_aad, make_aad_raw. do 3 f_equal.
  destruct m; cbn [mtype_arity firstn flat_map]; try reflexivity; now rewrite le16_wrap.
Qed.

Lemma make_aad_length pfx fu m rg col pg :
  length (make_aad pfx fu m rg col pg) = (length pfx + length fu + 1 + 2 * mtype_arity m)%nat.
Proof.
  unfold make_aad, make_aad_raw. rewrite !app_length, flat_le16_length. cbn [length].
  destruct m; cbn; lia.
Qed.

(** * Positions *)
Definition pos_in_range (p : modpos) : Prop :=
  let '(rg, col, pg) := pos_ords p in (N.of_nat rg < 65536 /\ N.of_nat col < 65536 /\ N.of_nat pg < 65536)%N.

Lemma pos_of_type_ords p p' :
  pos_type p = pos_type p' ->
  (let '(rg, col, pg) := pos_ords p in used_ordinals (pos_type p) (Z.of_nat rg) (Z.of_nat col) (Z.of_nat pg)) =
  (let '(rg, col, pg) := pos_ords p' in used_ordinals (pos_type p') (Z.of_nat rg) (Z.of_nat col) (Z.of_nat pg)) ->
  p = p'.
Proof.
  destruct p, p'; cbn; intros Ht H; try discriminate; try reflexivity;
    injection H; intros; f_equal; lia.
Qed.

(** Distinct modules never share an AAD: within a file, and across files whose
    prefix and file identifier have the same lengths. *)
Theorem aad_of_pos_injective pfx fu pfx' fu' p p' :
  length pfx = length pfx' -> length fu = length fu' ->
  pos_in_range p -> pos_in_range p' ->
  aad_of_pos pfx fu p = aad_of_pos pfx' fu' p' ->
  pfx = pfx' /\ fu = fu' /\ p = p'.
Proof.
  intros Hp Hf Hr Hr' H. unfold aad_of_pos, pos_in_range in *.
  destruct (pos_ords p) as [[rg col] pg] eqn:E. destruct (pos_ords p') as [[rg' col'] pg'] eqn:E'.
  apply make_aad_injective in H; try assumption; try (unfold in_ord; lia).
  destruct H as (-> & -> & Ht & Ho). repeat split; try reflexivity.
  apply pos_of_type_ords; [exact Ht|]. rewrite E, E'. exact Ho.
Qed.

(** Layouts whose ordinals fit 16 bits (the Go code does not check this for
    pages and columns; row groups are capped at 32767 by MaxRowGroups). *)
Definition wf_layout (lay : layout) : Prop :=
  (N.of_nat (length lay) <= 65536)%N /\
  Forall (fun rg => (N.of_nat (length rg) <= 65536)%N /\ Forall (fun c => (N.of_nat (c_pages c) <= 65536)%N) rg) lay.

Lemma layout_chunk_some lay rg col c :
  layout_chunk lay rg col = Some c ->
  exists cols, nth_error lay rg = Some cols /\ nth_error cols col = Some c.
Proof.
  unfold layout_chunk. destruct (nth_error lay rg) as [cols|] eqn:E; [|discriminate].
  intros H. exists cols. split; [reflexivity|exact H].
Qed.

Lemma valid_pos_in_range ef lay p : wf_layout lay -> valid_pos ef lay p = true -> pos_in_range p.
Proof.
  intros [Hn Hall] Hv. unfold pos_in_range.
  assert (K : forall rg col c, layout_chunk lay rg col = Some c ->
              (N.of_nat rg < 65536 /\ N.of_nat col < 65536 /\ N.of_nat (c_pages c) <= 65536)%N).
  { intros rg col c Hc. apply layout_chunk_some in Hc. destruct Hc as (cols & H1 & H2).
    assert (Hrg : (rg < length lay)%nat) by (apply nth_error_Some; congruence).
    assert (Hcol : (col < length cols)%nat) by (apply nth_error_Some; congruence).
    rewrite Forall_forall in Hall. destruct (Hall cols (nth_error_In _ _ H1)) as [Hl Hc].
    rewrite Forall_forall in Hc. specialize (Hc c (nth_error_In _ _ H2)). lia. }
  destruct p; cbn in Hv |- *; try lia;
    try (rewrite andb_true_iff in Hv; destruct Hv as [_ Hv]);
    destruct (layout_chunk lay rg col) as [c|] eqn:E; try discriminate;
    destruct (K _ _ _ E) as (A & B & C); try lia.
  all: apply Nat.ltb_lt in Hv; lia.
Qed.

(** * What the writer refuses *)
Lemma write_data_pages_chk_some pfx fu rgo colo n : forall np,
  (n = 0%nat \/ N.of_nat (np + n) <= 32768)%N ->
  write_data_pages_chk pfx fu rgo colo np n = Some (write_data_pages pfx fu rgo colo np n).
Proof.
  induction n as [|n IH]; intros np H; cbn [write_data_pages_chk write_data_pages]; [reflexivity|].
  destruct H as [H|H]; [discriminate|].
  unfold max_int16. destruct (N.ltb_spec 32767 (N.of_nat np)) as [L|L]; [lia|].
  rewrite IH; [reflexivity|]. right. lia.
Qed.

Lemma write_data_pages_chk_none pfx fu rgo colo n : forall np,
  (n <> 0%nat) -> (32768 < N.of_nat (np + n))%N ->
  write_data_pages_chk pfx fu rgo colo np n = None.
Proof.
  induction n as [|n IH]; intros np H0 H; [contradiction|]. cbn [write_data_pages_chk].
  unfold max_int16. destruct (N.ltb_spec 32767 (N.of_nat np)) as [L|L]; [reflexivity|].
  destruct n as [|n]; [lia|]. rewrite IH; [reflexivity|discriminate|lia].
Qed.

Lemma pages_accepted_iff n : forall k,
  pages_accepted k n = true <-> (n = 0%nat \/ k + N.of_nat n <= 32768)%N.
Proof.
  induction n as [|n IH]; intros k; cbn [pages_accepted]; [split; auto|].
  unfold max_int16. destruct (N.ltb_spec 32767 k) as [L|L].
  - split; [discriminate|]. intros [H|H]; [discriminate|lia].
  - rewrite IH. split.
    + intros [H|H]; right; [subst n; cbn; lia|lia].
    + intros [H|H]; [discriminate|]. destruct n; [left; reflexivity|right; lia].
Qed.

(** The decision is the one of the page loop. *)
Lemma pages_accepted_chk pfx fu rgo colo np n :
  pages_accepted (N.of_nat np) n = true <-> write_data_pages_chk pfx fu rgo colo np n <> None.
Proof.
  rewrite pages_accepted_iff. split.
  - intros H. rewrite write_data_pages_chk_some; [discriminate|]. destruct H; [left; assumption|right; lia].
  - intros H. destruct n; [left; reflexivity|]. right.
    destruct (N.leb_spec (N.of_nat np + N.of_nat (S n)) 32768) as [L|L]; [exact L|].
    exfalso. apply H. apply write_data_pages_chk_none; [discriminate|lia].
Qed.

Lemma chunk_accepted_iff c : chunk_accepted c = true <-> (N.of_nat (c_pages c) <= 32768)%N.
Proof.
  unfold chunk_accepted. rewrite pages_accepted_iff. split.
  - intros [H|H]; [rewrite H; cbn; lia|lia].
  - intros H. right. lia.
Qed.

Lemma layout_accepted_spec lay : layout_accepted lay = true ->
  (N.of_nat (length lay) <= 32767)%N /\
  Forall (fun rg => (N.of_nat (length rg) <= 65535)%N /\
                    Forall (fun c => (N.of_nat (c_pages c) <= 32768)%N) rg) lay.
Proof.
  unfold layout_accepted, max_row_groups, max_column_index. rewrite andb_true_iff. intros [H1 H2].
  apply N.leb_le in H1. split; [exact H1|].
  apply Forall_forall. intros rg Hrg. rewrite forallb_forall in H2. specialize (H2 rg Hrg).
  rewrite andb_true_iff in H2. destruct H2 as [H2 H3]. apply N.leb_le in H2. split; [lia|].
  apply Forall_forall. intros c Hc. rewrite forallb_forall in H3. apply chunk_accepted_iff. apply H3. exact Hc.
Qed.

Lemma layout_accepted_wf lay : layout_accepted lay = true -> wf_layout lay.
Proof.
  intros H. destruct (layout_accepted_spec lay H) as [H1 H2]. split; [lia|].
  eapply Forall_impl; [|exact H2]. intros rg [A B]. split; [lia|].
  eapply Forall_impl; [|exact B]. intros c Hc. cbn in Hc. lia.
Qed.

(** A chunk with more than 32768 data pages makes the writer fail. *)
Lemma write_file_chk_rejects pfx fu ef lay rg col c :
  layout_chunk lay rg col = Some c -> (32768 < N.of_nat (c_pages c))%N ->
  write_file_chk pfx fu ef lay = None.
Proof.
  intros Hc Hp. unfold write_file_chk. destruct (layout_accepted lay) eqn:E; [|reflexivity].
  exfalso. destruct (layout_accepted_spec lay E) as [_ H].
  apply layout_chunk_some in Hc. destruct Hc as (cols & H1 & H2).
  rewrite Forall_forall in H. destruct (H cols (nth_error_In _ _ H1)) as [_ H3].
  rewrite Forall_forall in H3. specialize (H3 c (nth_error_In _ _ H2)). cbn in H3. lia.
Qed.

Lemma write_file_chk_some pfx fu ef lay wf :
  write_file_chk pfx fu ef lay = Some wf -> wf = write_file pfx fu ef lay /\ wf_layout lay.
Proof.
  unfold write_file_chk. destruct (layout_accepted lay) eqn:E; [|discriminate].
  intros H. injection H as <-. split; [reflexivity|]. now apply layout_accepted_wf.
Qed.

(** * Writer: the state machine puts the closed-form AAD at every position *)
Lemma nth_write_data_pages pfx fu rgo colo n : forall np k, (k < n)%nat ->
  nth_error (write_data_pages pfx fu rgo colo np n) (2 * k) =
    Some (mkMod MDataHdr (make_aad pfx fu MDataHdr rgo colo (Z.of_nat (np + k)))) /\
  nth_error (write_data_pages pfx fu rgo colo np n) (S (2 * k)) =
    Some (mkMod MDataBody (make_aad pfx fu MDataBody rgo colo (Z.of_nat (np + k)))).
Proof.
  induction n as [|n IH]; intros np k Hk; [lia|].
  destruct k as [|k].
  - cbn. rewrite Nat.add_0_r. split; reflexivity.
  - replace (2 * S k)%nat with (S (S (2 * k))) by lia. cbn [write_data_pages nth_error].
    destruct (IH (S np) k ltac:(lia)) as [A B].
    replace (np + S k)%nat with (S np + k)%nat by lia. split; assumption.
Qed.

Lemma write_data_pages_length pfx fu rgo colo n : forall np,
  length (write_data_pages pfx fu rgo colo np n) = (2 * n)%nat.
Proof. induction n as [|n IH]; intros np; cbn [write_data_pages length]; [reflexivity|]. rewrite IH. lia. Qed.

Lemma nth_page_locs n : forall base k, (k < n)%nat -> nth_error (page_locs base n) k = Some (base + 2 * k)%nat.
Proof.
  induction n as [|n IH]; intros base k Hk; [lia|]. destruct k as [|k]; cbn [page_locs nth_error].
  - f_equal. lia.
  - rewrite IH by lia. f_equal. lia.
Qed.

Lemma nth_page_locs_none n : forall base k, (n <= k)%nat -> nth_error (page_locs base n) k = None.
Proof.
  induction n as [|n IH]; intros base k Hk; cbn [page_locs]; [now destruct k|].
  destruct k as [|k]; [lia|]. cbn [nth_error]. apply IH. lia.
Qed.

Lemma nth_write_columns pfx fu ef rgo cols : forall i col c,
  nth_error cols col = Some c ->
  nth_error (write_columns pfx fu ef rgo i cols) col = Some (write_chunk pfx fu ef rgo (Z.of_nat (i + col)) c).
Proof.
  induction cols as [|c0 cols IH]; intros i col c H; [now destruct col|].
  destruct col as [|col]; cbn [write_columns nth_error] in *.
  - injection H as ->. now rewrite Nat.add_0_r.
  - rewrite (IH (S i) col c H). do 3 f_equal. lia.
Qed.

Lemma nth_write_columns_none pfx fu ef rgo cols : forall i col,
  nth_error cols col = None -> nth_error (write_columns pfx fu ef rgo i cols) col = None.
Proof.
  induction cols as [|c0 cols IH]; intros i col H; [now destruct col|].
  destruct col as [|col]; cbn [write_columns nth_error] in *; [discriminate|]. now apply IH.
Qed.

Lemma nth_write_row_groups pfx fu ef lay : forall n rg cols,
  nth_error lay rg = Some cols ->
  nth_error (write_row_groups pfx fu ef n lay) rg = Some (write_columns pfx fu ef (Z.of_nat (n + rg)) 0 cols).
Proof.
  induction lay as [|r lay IH]; intros n rg cols H; [now destruct rg|].
  destruct rg as [|rg]; cbn [write_row_groups nth_error] in *.
  - injection H as ->. now rewrite Nat.add_0_r.
  - rewrite (IH (S n) rg cols H). do 3 f_equal. lia.
Qed.

Lemma nth_write_row_groups_none pfx fu ef lay : forall n rg,
  nth_error lay rg = None -> nth_error (write_row_groups pfx fu ef n lay) rg = None.
Proof.
  induction lay as [|r lay IH]; intros n rg H; [now destruct rg|].
  destruct rg as [|rg]; cbn [write_row_groups nth_error] in *; [discriminate|]. now apply IH.
Qed.

Lemma wfile_chunk_write pfx fu ef lay rg col c :
  layout_chunk lay rg col = Some c ->
  wfile_chunk (write_file pfx fu ef lay) rg col =
    Some (write_chunk pfx fu ef (Z.of_nat rg) (Z.of_nat col) c).
Proof.
  intros H. apply layout_chunk_some in H. destruct H as (cols & H1 & H2).
  unfold wfile_chunk, write_file. cbn [wf_row_groups].
  rewrite (nth_write_row_groups _ _ _ _ 0 rg cols H1). cbn [Nat.add].
  rewrite (nth_write_columns _ _ _ _ _ 0 col c H2). reflexivity.
Qed.

Lemma wfile_chunk_write_none pfx fu ef lay rg col :
  layout_chunk lay rg col = None -> wfile_chunk (write_file pfx fu ef lay) rg col = None.
Proof.
  unfold layout_chunk, wfile_chunk, write_file. cbn [wf_row_groups]. intros H.
  destruct (nth_error lay rg) as [cols|] eqn:E.
  - rewrite (nth_write_row_groups _ _ _ _ 0 rg cols E). now apply nth_write_columns_none.
  - now rewrite nth_write_row_groups_none.
Qed.

(** The modules of a written chunk, by index. *)
Definition dict_len (c : chunk) : nat := if c_dict c then 2%nat else 0%nat.

Lemma wc_mods_dict pfx fu ef rgo colo c :
  c_dict c = true ->
  nth_error (wc_mods (write_chunk pfx fu ef rgo colo c)) 0 = Some (mkMod MDictHdr (make_aad pfx fu MDictHdr rgo colo 0)) /\
  nth_error (wc_mods (write_chunk pfx fu ef rgo colo c)) 1 = Some (mkMod MDictBody (make_aad pfx fu MDictBody rgo colo 0)).
Proof. intros H. unfold write_chunk. cbn [wc_mods]. rewrite H. split; reflexivity. Qed.

Lemma wc_mods_data pfx fu ef rgo colo c k :
  (k < c_pages c)%nat ->
  nth_error (wc_mods (write_chunk pfx fu ef rgo colo c)) (dict_len c + 2 * k) =
    Some (mkMod MDataHdr (make_aad pfx fu MDataHdr rgo colo (Z.of_nat k))) /\
  nth_error (wc_mods (write_chunk pfx fu ef rgo colo c)) (S (dict_len c + 2 * k)) =
    Some (mkMod MDataBody (make_aad pfx fu MDataBody rgo colo (Z.of_nat k))).
Proof.
  intros Hk. unfold write_chunk, dict_len. cbn [wc_mods].
  destruct (nth_write_data_pages pfx fu rgo colo (c_pages c) 0 k Hk) as [A B]. cbn [Nat.add] in A, B.
  destruct (c_dict c); cbn [app write_dict_page Nat.add nth_error]; split; assumption.
Qed.

Lemma wc_mods_length pfx fu ef rgo colo c :
  length (wc_mods (write_chunk pfx fu ef rgo colo c)) = (dict_len c + 2 * c_pages c)%nat.
Proof.
  unfold write_chunk, dict_len. cbn [wc_mods]. rewrite app_length, write_data_pages_length.
  destruct (c_dict c); reflexivity.
Qed.

Lemma wc_data_offset_eq pfx fu ef rgo colo c :
  wc_data_offset (write_chunk pfx fu ef rgo colo c) = dict_len c.
Proof. unfold write_chunk, dict_len. cbn [wc_data_offset]. destruct (c_dict c); reflexivity. Qed.

Lemma wc_dict_offset_eq pfx fu ef rgo colo c :
  wc_dict_offset (write_chunk pfx fu ef rgo colo c) = if c_dict c then Some 0%nat else None.
Proof. reflexivity. Qed.

Lemma wc_page_locs_eq pfx fu ef rgo colo c k :
  nth_error (wc_page_locs (write_chunk pfx fu ef rgo colo c)) k =
    if (k <? c_pages c)%nat then Some (dict_len c + 2 * k)%nat else None.
Proof.
  unfold write_chunk, dict_len. cbn [wc_page_locs].
  destruct (Nat.ltb_spec k (c_pages c)) as [H|H].
  - rewrite nth_page_locs by exact H. destruct (c_dict c); reflexivity.
  - now apply nth_page_locs_none.
Qed.

(** Every module of the file is sealed under the AAD of its position. *)
Theorem write_file_spec pfx fu ef lay p :
  valid_pos ef lay p = true ->
  wfile_at (write_file pfx fu ef lay) p = Some (mkMod (pos_type p) (aad_of_pos pfx fu p)).
Proof.
  intros Hv. destruct p; cbn [valid_pos] in Hv; cbn [wfile_at];
    try reflexivity;
    try (rewrite andb_true_iff in Hv; destruct Hv as [Hef Hv]);
    destruct (layout_chunk lay rg col) as [c|] eqn:E; try discriminate;
    rewrite (wfile_chunk_write pfx fu ef lay rg col c E).
  - (* column metadata *)
    unfold write_chunk. cbn [wc_col_meta]. destruct ef; [discriminate|]. reflexivity.
  - rewrite wc_dict_offset_eq, Hv. apply (wc_mods_dict pfx fu ef _ _ c Hv).
  - rewrite wc_dict_offset_eq, Hv. apply (wc_mods_dict pfx fu ef _ _ c Hv).
  - rewrite wc_page_locs_eq, Hv. apply Nat.ltb_lt in Hv. apply (wc_mods_data pfx fu ef _ _ c pg Hv).
  - rewrite wc_page_locs_eq, Hv. apply Nat.ltb_lt in Hv. apply (wc_mods_data pfx fu ef _ _ c pg Hv).
  - unfold write_chunk. cbn [wc_bloom]. rewrite Hv. reflexivity.
  - unfold write_chunk. cbn [wc_bloom]. rewrite Hv. reflexivity.
  - reflexivity.
  - reflexivity.
Qed.

(** * Reader: invariant of the page cursor *)
Section Cursor.
  Variables pfx fu : bytes.
  Variable ef : footer_mode.
  Variables rg col : nat.
  Variable c : chunk.
  Let rgo := Z.of_nat rg.
  Let colo := Z.of_nat col.
  Let wc := write_chunk pfx fu ef rgo colo c.

  (** The counters describe the stream position: either the dictionary page
      is next and pending, or data page [k] is next and the page ordinal is the
      16-bit pattern of [k] ([k] may be the number of pages: end of chunk). *)
  Definition rinv (s : rstate) : Prop :=
    (c_dict c = true /\ r_pending s = true /\ r_stream s = 0%nat /\ r_ord s = 0%N) \/
    (r_pending s = false /\ exists k, r_stream s = (dict_len c + 2 * k)%nat /\ r_ord s = wrapZ 16 (Z.of_nat k)).

  Definition ev_ok (e : revent) : Prop :=
    nth_error (wc_mods wc) (ev_at e) = Some (mkMod (ev_type e) (ev_aad e)).

  Lemma rinit_inv : rinv (rinit wc).
  Proof.
    unfold rinit, rinv. unfold wc in *. rewrite wc_dict_offset_eq, wc_data_offset_eq. unfold dict_len.
    destruct (c_dict c) eqn:E; cbn.
    - left. repeat split.
    - right. split; [reflexivity|]. exists 0%nat. split; reflexivity.
  Qed.

  Lemma inc16_wrap k : inc16 (wrapZ 16 (Z.of_nat k)) = wrapZ 16 (Z.of_nat (S k)).
  Proof.
    unfold inc16, wrapZ. change (2 ^ Z.of_N 16)%Z with 65536%Z.
    rewrite Nat2Z.inj_succ. unfold Z.succ.
    pose proof (Z.mod_pos_bound (Z.of_nat k) 65536 ltac:(lia)) as Hb.
    pose proof (Z.mod_pos_bound (Z.of_nat k + 1) 65536 ltac:(lia)) as Hb'.
    zify. Z.div_mod_to_equations. lia.
  Qed.

  Lemma dict_events_ok : c_dict c = true ->
    Forall ev_ok (read_dictionary_events pfx fu rgo colo wc).
  Proof.
    intros Hd. unfold read_dictionary_events. unfold wc in *. rewrite wc_dict_offset_eq, Hd.
    destruct (wc_mods_dict pfx fu ef rgo colo c Hd) as [A B].
    repeat constructor; unfold ev_ok, wc; cbn [ev_at ev_type ev_aad]; assumption.
  Qed.

  Lemma Z_of_N_wrap k : make_aad pfx fu MDataHdr rgo colo (Z.of_N (wrapZ 16 (Z.of_nat k))) =
                        make_aad pfx fu MDataHdr rgo colo (Z.of_nat k) /\
                        make_aad pfx fu MDataBody rgo colo (Z.of_N (wrapZ 16 (Z.of_nat k))) =
                        make_aad pfx fu MDataBody rgo colo (Z.of_nat k).
  Proof.
    assert (E : le16 (Z.of_N (wrapZ 16 (Z.of_nat k))) = le16 (Z.of_nat k)).
    { unfold le16. f_equal. unfold wrapZ. change (2 ^ Z.of_N 16)%Z with 65536%Z.
      pose proof (Z.mod_pos_bound (Z.of_nat k) 65536 ltac:(lia)) as Hb.
      rewrite Z2N.id by lia. rewrite Z.mod_mod by lia. reflexivity. }
    unfold make_aad, make_aad_raw. cbn [mtype_arity firstn flat_map]. rewrite E. split; reflexivity.
  Qed.

  Lemma rstep_inv s o : rinv s ->
    rinv (fst (rstep pfx fu rgo colo wc s o)) /\ Forall ev_ok (snd (rstep pfx fu rgo colo wc s o)).
  Proof.
    intros Hi. destruct o as [de|target again| |]; cbn [rstep].
    - (* RNext *)
      destruct (nth_error (wc_mods wc) (r_stream s)) as [hdr|] eqn:E0; [|split; [exact Hi|constructor]].
      destruct (nth_error (wc_mods wc) (S (r_stream s))) as [bdy|] eqn:E1; [|split; [exact Hi|constructor]].
      destruct Hi as [(Hd & Hp & Hs & Ho)|(Hp & k & Hs & Ho)].
      + (* the dictionary page is next *)
        rewrite Hp. unfold wc in *. destruct (wc_mods_dict pfx fu ef rgo colo c Hd) as [A B].
        rewrite Hs in E0, E1. rewrite A in E0. injection E0 as <-. cbn [m_type is_dict_type fst snd].
        split.
        * right. cbn [r_pending r_stream r_ord]. split; [reflexivity|]. exists 0%nat.
          unfold dict_len. rewrite Hd, Hs, Ho. split; reflexivity.
        * rewrite Hs. repeat constructor; unfold ev_ok, wc; cbn [ev_at ev_type ev_aad]; assumption.
      + (* data page k is next *)
        rewrite Hp.
        assert (Hk : (k < c_pages c)%nat).
        { assert (Hl : (S (r_stream s) < length (wc_mods wc))%nat) by (apply nth_error_Some; congruence).
          unfold wc in *. rewrite wc_mods_length in Hl. lia. }
        unfold wc in *. destruct (wc_mods_data pfx fu ef rgo colo c k Hk) as [A B].
        rewrite Hs in E0, E1. rewrite A in E0. injection E0 as <-. cbn [m_type is_dict_type].
        destruct (Z_of_N_wrap k) as [W1 W2].
        cbn [fst snd]. split.
        * right. cbn [r_pending r_stream r_ord]. split; [reflexivity|]. exists (S k).
          rewrite Hs, Ho, inc16_wrap. split; [lia|reflexivity].
        * apply Forall_app. split.
          -- rewrite Hs, Ho, W1, W2. repeat constructor; unfold ev_ok, wc; cbn [ev_at ev_type ev_aad]; assumption.
          -- rewrite wc_dict_offset_eq.
             destruct (de && negb (r_dict s) && (if c_dict c then true else false)) eqn:L;
               [|destruct (c_dict c); rewrite L; constructor].
             assert (Hd : c_dict c = true) by (destruct (c_dict c); [reflexivity|rewrite andb_false_r in L; discriminate]).
             rewrite Hd in *. rewrite L. apply dict_events_ok. exact Hd.
    - (* RSeekIndex *)
      unfold wc in *. rewrite wc_page_locs_eq.
      destruct (Nat.ltb_spec target (c_pages c)) as [Ht|Ht]; [|split; [exact Hi|constructor]].
      destruct again; [split; [exact Hi|constructor]|].
      destruct (r_index s =? target)%nat; [split; [exact Hi|constructor]|].
      cbn [fst snd]. split; [|constructor].
      right. cbn [r_pending r_stream r_ord]. split; [reflexivity|]. exists target. split; reflexivity.
    - (* RSeekNoIndex *)
      cbn [fst snd]. split; [|constructor].
      right. cbn [r_pending r_stream r_ord]. split; [reflexivity|]. exists 0%nat.
      unfold wc in *. rewrite wc_data_offset_eq. split; [lia|reflexivity].
    - (* RLoadDict *)
      unfold wc in *. rewrite wc_dict_offset_eq. destruct (c_dict c) eqn:Hd; [|split; [exact Hi|constructor]].
      destruct (r_dict s); [split; [exact Hi|constructor]|].
      cbn [fst snd]. split.
      + destruct Hi as [(H1 & H2 & H3 & H4)|(H1 & k & H2 & H3)]; [left|right]; cbn [r_pending r_stream r_ord].
        * repeat split; assumption.
        * split; [assumption|]. exists k. split; assumption.
      + apply dict_events_ok. exact Hd.
  Qed.

  Lemma rrun_inv h : forall s, rinv s ->
    rinv (fst (rrun pfx fu rgo colo wc s h)) /\ Forall ev_ok (snd (rrun pfx fu rgo colo wc s h)).
  Proof.
    induction h as [|o h IH]; intros s Hi; cbn [rrun].
    - split; [exact Hi|constructor].
    - destruct (rstep_inv s o Hi) as [H1 H2].
      destruct (rstep pfx fu rgo colo wc s o) as [s1 e1]. cbn [fst snd] in H1, H2.
      destruct (IH s1 H1) as [H3 H4].
      destruct (rrun pfx fu rgo colo wc s1 h) as [s2 e2]. cbn [fst snd] in *.
      split; [exact H3|]. apply Forall_app. split; assumption.
  Qed.

  (** Whatever the history, every module the cursor reads was sealed by the
      writer with exactly the type and AAD the cursor expects. *)
  Theorem cursor_agrees h :
    Forall ev_ok (snd (rrun pfx fu rgo colo wc (rinit wc) h)).
  Proof. apply rrun_inv. apply rinit_inv. Qed.
End Cursor.

(** * Equality tests *)
Lemma bytes_eqb_refl a : bytes_eqb a a = true.
Proof.
  unfold bytes_eqb. rewrite Nat.eqb_refl. cbn [andb].
  induction a as [|x a IH]; cbn; [reflexivity|]. now rewrite N.eqb_refl.
Qed.

Lemma bytes_eqb_eq a : forall b, bytes_eqb a b = true -> a = b.
Proof.
  unfold bytes_eqb. induction a as [|x a IH]; intros [|y b] H; cbn in H; try discriminate; [reflexivity|].
  rewrite andb_true_iff in H. destruct H as [Hl H]. rewrite andb_true_iff in H. destruct H as [Hx H].
  apply N.eqb_eq in Hx. subst y. f_equal. apply IH. rewrite Hl. exact H.
Qed.

Lemma wmodule_eqb_refl m : wmodule_eqb m m = true.
Proof. unfold wmodule_eqb. rewrite bytes_eqb_refl, andb_true_r. now apply mtype_eqb_eq. Qed.

Lemma event_agrees_ok wc e :
  nth_error (wc_mods wc) (ev_at e) = Some (mkMod (ev_type e) (ev_aad e)) -> event_agrees wc e = true.
Proof.
  intros H. unfold event_agrees. rewrite H. cbn [m_type m_aad].
  rewrite bytes_eqb_refl, andb_true_r. now apply mtype_eqb_eq.
Qed.

(** * Whole-file reader *)
(** The static modules a reader addresses must exist (it finds their offsets
    in the footer); page cursors are unconstrained. *)
Definition fop_valid (ef : footer_mode) (lay : layout) (o : fop) : bool :=
  match o with
  | FFooter => true
  | FColMeta rg col => valid_pos ef lay (PColMeta rg col)
  | FColIndex rg col => valid_pos ef lay (PColIndex rg col)
  | FOffIndex rg col => valid_pos ef lay (POffIndex rg col)
  | FBloom rg col => valid_pos ef lay (PBloomHdr rg col)
  | FPages _ _ _ => true
  end.

Theorem file_reader_agrees pfx fu ef lay (h : list fop) :
  forallb (fop_valid ef lay) h = true ->
  Forall (fun p => fst p = Some (snd p)) (frun pfx fu (write_file pfx fu ef lay) h).
Proof.
  intros Hv. unfold frun. induction h as [|o h IH]; cbn [flat_map]; [constructor|].
  cbn [forallb] in Hv. rewrite andb_true_iff in Hv. destruct Hv as [Ho Hh].
  apply Forall_app. split; [|apply IH; exact Hh]. clear IH Hh.
  destruct o; cbn [fstep fop_valid] in *.
  - repeat constructor.
  - repeat constructor. cbn [fst snd]. now apply write_file_spec.
  - repeat constructor. cbn [fst snd]. now apply write_file_spec.
  - repeat constructor. cbn [fst snd]. now apply write_file_spec.
  - repeat constructor; cbn [fst snd]; apply write_file_spec; exact Ho.
  - destruct (layout_chunk lay rg col) as [c|] eqn:E.
    + rewrite (wfile_chunk_write pfx fu ef lay rg col c E).
      apply Forall_map. pose proof (cursor_agrees pfx fu ef rg col c h0) as H.
      eapply Forall_impl; [|exact H]. intros e He. exact He.
    + rewrite (wfile_chunk_write_none pfx fu ef lay rg col E). constructor.
Qed.

Corollary file_reader_agrees_bool pfx fu ef lay h :
  forallb (fop_valid ef lay) h = true ->
  forallb pair_agrees (frun pfx fu (write_file pfx fu ef lay) h) = true.
Proof.
  intros Hv. apply forallb_forall. intros p Hp.
  pose proof (file_reader_agrees pfx fu ef lay h Hv) as H. rewrite Forall_forall in H.
  specialize (H p Hp). unfold pair_agrees. rewrite H. apply wmodule_eqb_refl.
Qed.

(** * Footer modes *)
Import String.
Lemma footer_fields_are_known : footer_fields_known true = true /\ footer_fields_known false = true.
Proof. split; vm_compute; reflexivity. Qed.

(** In plaintext-footer mode no field that carries column metadata is written
    in the clear: [MetaData] is absent and the metadata only exists as the
    plaintext of the ColumnMetaData module.  In encrypted-footer mode nothing
    of the FileMetaData is in the clear. *)
Lemma no_clear_metadata ef : clear_metadata_fields ef = [].
Proof. destruct ef; vm_compute; reflexivity. Qed.

Lemma plaintext_footer_metadata_absent :
  In ("MetaData"%string, Absent) (footer_chunk false) /\
  In ("EncryptedColumnMetadata"%string, Sealed MColMeta) (footer_chunk false).
Proof. split; vm_compute; tauto. Qed.

(** * Writer options: which EncryptionConfig the writer of the file uses *)
Section WoptInd.
  Variable P : wopt -> Prop.
  Hypothesis HO : P WOther.
  Hypothesis HE : forall c, P (WEnc c).
  Hypothesis HC : forall l, Forall P l -> P (WConf l).
  Fixpoint wopt_ind' (o : wopt) : P o :=
    match o with
    | WOther => HO
    | WEnc c => HE c
    | WConf l =>
        HC l ((fix go (l : list wopt) : Forall P l :=
                 match l with
                 | [] => Forall_nil P
                 | o :: r => Forall_cons o (wopt_ind' o) (go r)
                 end) l)
    end.
End WoptInd.

Definition last_opt (l : list N) : option N := last (map Some l) None.
Definition or_else (a cur : option N) : option N := match a with Some c => Some c | None => cur end.

Lemma last_opt_app a b : last_opt (a ++ b) = or_else (last_opt b) (last_opt a).
Proof.
  unfold last_opt. rewrite map_app.
  induction b as [|x b IH] using rev_ind.
  - cbn. rewrite app_nil_r. now destruct (last (map Some a) None).
  - rewrite map_app. cbn [map]. rewrite app_assoc, !last_last. reflexivity.
Qed.

Lemma or_else_assoc a b c : or_else a (or_else b c) = or_else (or_else a b) c.
Proof. now destruct a. Qed.

Lemma apply_wopt_spec : forall o cur, apply_wopt cur o = or_else (last_opt (enc_mentions o)) cur.
Proof.
  induction o as [|c|l IH] using wopt_ind'; intros cur; cbn [apply_wopt enc_mentions].
  - reflexivity.
  - reflexivity.
  - assert (H : forall acc, fold_left apply_wopt l acc = or_else (last_opt (flat_map enc_mentions l)) acc).
    { induction IH as [|o r Ho _ IHr]; intros acc; cbn [fold_left flat_map]; [reflexivity|].
      rewrite IHr, Ho, last_opt_app. apply or_else_assoc. }
    rewrite H. now destruct (last_opt (flat_map enc_mentions l)).
Qed.

Lemma apply_wopts_spec l cur :
  fold_left apply_wopt l cur = or_else (last_opt (flat_map enc_mentions l)) cur.
Proof.
  revert cur. induction l as [|o r IH]; intros cur; cbn [fold_left flat_map]; [reflexivity|].
  rewrite IH, apply_wopt_spec, last_opt_app. apply or_else_assoc.
Qed.

(** Whatever the constructor and however the options are nested in
    configurations, the writer uses the configuration named last. *)
Theorem effective_encryption_spec ct l :
  effective_encryption ct l = last_opt (flat_map enc_mentions l).
Proof.
  destruct ct; unfold effective_encryption.
  - rewrite apply_wopts_spec. now destruct (last_opt (flat_map enc_mentions l)).
  - rewrite apply_wopts_spec. cbn [flat_map enc_mentions]. rewrite app_nil_r.
    now destruct (last_opt (flat_map enc_mentions l)).
Qed.

Lemma last_opt_some l : l <> [] -> exists c, last_opt l = Some c /\ In c l.
Proof.
  intros Hl. destruct (exists_last Hl) as (l' & c & ->). exists c. split.
  - unfold last_opt. rewrite map_app. cbn [map]. now rewrite last_last.
  - apply in_or_app. right. now left.
Qed.

(** In particular: when some option, at any depth, names an EncryptionConfig,
    the writer encrypts, with one of the configurations named. *)
Corollary encryption_not_dropped ct l :
  flat_map enc_mentions l <> [] ->
  exists c, effective_encryption ct l = Some c /\ In c (flat_map enc_mentions l).
Proof. intros H. rewrite effective_encryption_spec. now apply last_opt_some. Qed.
