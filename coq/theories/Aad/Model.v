(** Parquet modular encryption as implemented by parquet-go: executable model,
    no proofs (Aad/Proofs.v, Aad/Aead.v).

    - [make_aad_raw] / [make_aad]: encrypt.go makeAAD and the ordinals its call
      sites pass (writer.go, file.go);
    - [encrypt_module] / [decrypt_module]: the module envelope of encrypt.go
      encryptModule / decryptModule, AES-GCM abstracted as the parameters
      [seal] / [open_];
    - [write_file]: the WRITER's ordinal bookkeeping (writer.go) as a state
      machine over a file layout; its output is the physical sequence of sealed
      modules of every column chunk plus what the footer records about them
      (dictionary / data page offsets, offset index);
    - [rstep] / [rrun]: the READER's page cursor on an encrypted chunk
      (file.go FilePages: readEncryptedPage, readDictionary, SeekToRow) which
      recomputes the ordinals from its own counters, and the readers of the
      page index, bloom filter, column metadata and footer modules;
    - [footer_chunk]: which ColumnChunk fields stay in the clear in the two
      footer modes (writer.go writeRowGroup 1699-1737).

    Ordinals are Go [int]s converted with [int16(x)] (silent wrap-around) and
    appended as two little-endian bytes: only the 16-bit pattern [wrapZ 16 x]
    matters, which is what the model keeps. *)
From Coq Require Import List ZArith NArith Bool Arith Lia.
From PQ Require Import Base.Bytes Generated.Consts Generated.Thrift.
Import ListNotations.

(** * Module types (encrypt.go:15-26), numbers from the generated constants *)
Inductive mtype :=
| MFooter | MColMeta | MDataBody | MDataHdr | MDictBody | MDictHdr
| MBloomHdr | MBloomBits | MColIndex | MOffIndex.

Definition mtype_code (m : mtype) : Z :=
  match m with
  | MFooter => go_parquet_footerModule
  | MColMeta => go_parquet_columnMetaDataModule
  | MDataBody => go_parquet_dataPageBodyModule
  | MDataHdr => go_parquet_dataPageHeaderModule
  | MDictBody => go_parquet_dictPageBodyModule
  | MDictHdr => go_parquet_dictPageHeaderModule
  | MBloomHdr => go_parquet_bloomFilterHdrModule
  | MBloomBits => go_parquet_bloomFilterBitsModule
  | MColIndex => go_parquet_columnIndexModule
  | MOffIndex => go_parquet_offsetIndexModule
  end.

Definition all_mtypes : list mtype :=
  [MFooter; MColMeta; MDataBody; MDataHdr; MDictBody; MDictHdr;
   MBloomHdr; MBloomBits; MColIndex; MOffIndex].

Definition mtype_byte (m : mtype) : N := Z.to_N (mtype_code m).

Definition mtype_eqb (a b : mtype) : bool := Z.eqb (mtype_code a) (mtype_code b).

Definition mtype_of_code (c : Z) : option mtype :=
  find (fun m => Z.eqb (mtype_code m) c) all_mtypes.

(** How many ordinals the call sites of makeAAD pass for each module type:
    none for the footer (writer.go:1423,1464; file.go:158,203); row group and
    column for column metadata, bloom filter and page index modules
    (writer.go:1343,1369,1728,2414,2419; file.go:460,501,567,967,1005,1042,1051);
    row group, column and page for page headers and bodies (writer.go:2528,
    2537, 2620, 2625 -- the dictionary page passes the constant 0; file.go:1333,
    1345, 1516, 1531). *)
Definition mtype_arity (m : mtype) : nat :=
  match m with
  | MFooter => 0
  | MDataBody | MDataHdr | MDictBody | MDictHdr => 3
  | _ => 2
  end.

(** * makeAAD (encrypt.go:235-244) *)
(* byte(ord), byte(ord>>8) of an int16 *)
Definition le16 (z : Z) : bytes := to_le 2 (wrapZ 16 z).

Definition make_aad_raw (prefix file_unique : bytes) (module_type : N) (ordinals : list Z) : bytes :=
  prefix ++ file_unique ++ [module_type] ++ flat_map le16 ordinals.

Definition make_aad (prefix file_unique : bytes) (m : mtype) (rg col page : Z) : bytes :=
  make_aad_raw prefix file_unique (mtype_byte m) (firstn (mtype_arity m) [rg; col; page]).

(** * Module envelope (encrypt.go:170-230) *)
Definition nonce_size : nat := Z.to_nat go_parquet_encNonceSize.
Definition tag_size : nat := Z.to_nat go_parquet_encTagSize.

Section Envelope.
  Variable key : Type.
  (* gcm.Seal(dst, nonce, plaintext, aad): ciphertext followed by the tag *)
  Variable seal : key -> bytes -> bytes -> bytes -> bytes.
  (* gcm.Open(nil, nonce, ciphertext, aad) *)
  Variable open_ : key -> bytes -> bytes -> bytes -> option bytes.

  (* encryptModule; the nonce comes from crypto/rand *)
  Definition encrypt_module (k : key) (nonce aad plaintext : bytes) : bytes :=
    let ct := seal k nonce aad plaintext in
    to_le 4 (N.of_nat (nonce_size + length ct)) ++ nonce ++ ct.

  (* decryptModule *)
  Definition decrypt_module (k : key) (aad envelope : bytes) : option bytes :=
    if (length envelope <? 4)%nat then None else
    let module_len := N.to_nat (of_le (firstn 4 envelope)) in
    if (length envelope <? 4 + module_len)%nat then None else
    if (module_len <? nonce_size + tag_size)%nat then None else
    let nonce := firstn nonce_size (skipn 4 envelope) in
    let ciphertext := firstn (module_len - nonce_size) (skipn (4 + nonce_size) envelope) in
    open_ k nonce aad ciphertext.

  (* readDecryptedEnvelopeFrom (file.go): the reader of the modules met in a
     stream of pages -- data and dictionary page headers and bodies
     (FilePages.readPage / readDictionaryPage), bloom filter header and bitset
     (FileColumnChunk.setBloomFilterOn), and the writer's read-back of its own
     encrypted pages (writer.go, flushFilterPages): io.ReadFull of the 4-byte
     length field, io.ReadFull of exactly that many bytes, decryptModule on the
     envelope.  The only conditions on the length are those of decryptModule:
     a module is as long as its plaintext (a page, a dictionary, a bitset).
     Returns the plaintext and what follows the module in the stream. *)
  Definition read_envelope_from (k : key) (aad stream : bytes) : option (bytes * bytes) :=
    if (length stream <? 4)%nat then None else
    let module_len := N.to_nat (of_le (firstn 4 stream)) in
    if (length stream <? 4 + module_len)%nat then None else
    match decrypt_module k aad (firstn (4 + module_len) stream) with
    | Some p => Some (p, skipn (4 + module_len) stream)
    | None => None
    end.
End Envelope.

(** ** The length field, on numbers (modules of many MiB: no [nat] here) *)
(* encryptModule: moduleLen := encNonceSize + len(plaintext) + gcm.Overhead();
   binary.LittleEndian.PutUint32(out[:4], uint32(moduleLen)) *)
Definition module_len_of_plain (plain_len : N) : N :=
  N.of_nat nonce_size + plain_len + N.of_nat tag_size.

Definition len_field (plain_len : N) : bytes := to_le 4 (module_len_of_plain plain_len).

(* What readDecryptedEnvelopeFrom / decryptModule require of a length field
   when [avail] bytes follow it in the stream: the bytes are there, and the
   module holds at least a nonce and a tag. *)
Definition stream_accepts (field : bytes) (avail : N) : bool :=
  let ml := of_le field in
  (ml <=? avail)%N && (N.of_nat (nonce_size + tag_size) <=? ml)%N.

(** * Writer options (config.go, writer.go, sorting.go, parquet.go) *)
(** Only the Encryption field of WriterConfig is followed.  An option is
    WithEncryption(cfg) ([WEnc], the configurations are numbered), any other
    option ([WOther]), or a *WriterConfig ([WConf]): NewWriterConfig(options...)
    or a WriterConfig value to which options were applied, used as an option. *)
Inductive wopt := WOther | WEnc (cfg : N) | WConf (opts : list wopt).

(* config.Apply(options...): opt.ConfigureWriter(config) for each option in turn.
   writerEncryptionOption.ConfigureWriter: c.Encryption = o.cfg.
   ConfigureWriter of a WriterConfig used as an option: Encryption: cmp.Or(c.Encryption, config.Encryption),
   where c is the option (built from its own options, starting from a
   configuration without encryption) and config the destination. *)
Fixpoint apply_wopt (cur : option N) (o : wopt) : option N :=
  match o with
  | WOther => cur
  | WEnc c => Some c
  | WConf l =>
      match fold_left apply_wopt l None with
      | Some c => Some c
      | None => cur
      end
  end.

(* How the options given to a constructor reach the writer of the file:
   NewGenericWriter, NewWriter: config := NewWriterConfig(options...) ([CDirect]);
   NewSortingWriter, Write, WriteFile: config := NewWriterConfig(options...),
   then NewGenericWriter(output, config): the configuration is the one option
   of the writer of the output file ([CViaConfig]). *)
Inductive wctor := CDirect | CViaConfig.

Definition effective_encryption (ct : wctor) (l : list wopt) : option N :=
  match ct with
  | CDirect => fold_left apply_wopt l None
  | CViaConfig => fold_left apply_wopt [WConf l] None
  end.

(* The configurations the options name, in the order written (depth first). *)
Fixpoint enc_mentions (o : wopt) : list N :=
  match o with
  | WOther => []
  | WEnc c => [c]
  | WConf l => flat_map enc_mentions l
  end.

(** * File layouts *)
(** One column chunk: has a dictionary page, number of data pages, has a bloom
    filter.  A row group is a list of chunks (one per leaf column), a file a
    list of row groups. *)
Record chunk := mkChunk { c_dict : bool; c_pages : nat; c_bloom : bool }.
Definition layout := list (list chunk).

(* true = encrypted footer ("PARE"), false = plaintext footer with signature *)
Definition footer_mode := bool.

(** * Writer *)
(** What the writer sealed at one place of the file: module type and AAD. *)
Record wmodule := mkMod { m_type : mtype; m_aad : bytes }.

(** ColumnWriter.writeDataPage, [n] times (writer.go:2526-2553):
    pageOrd := int16(c.numPages); header then body; writePageTo ends with
    c.numPages++ (writer.go:2690). *)
Fixpoint write_data_pages (pfx fu : bytes) (rg_ord col_ord : Z) (num_pages n : nat) : list wmodule :=
  match n with
  | O => []
  | S n' =>
      mkMod MDataHdr (make_aad pfx fu MDataHdr rg_ord col_ord (Z.of_nat num_pages))
      :: mkMod MDataBody (make_aad pfx fu MDataBody rg_ord col_ord (Z.of_nat num_pages))
      :: write_data_pages pfx fu rg_ord col_ord (S num_pages) n'
  end.

(** ColumnWriter.writeDictionaryPage (writer.go:2619-2639): page ordinal 0. *)
Definition write_dict_page (pfx fu : bytes) (rg_ord col_ord : Z) : list wmodule :=
  [mkMod MDictHdr (make_aad pfx fu MDictHdr rg_ord col_ord 0);
   mkMod MDictBody (make_aad pfx fu MDictBody rg_ord col_ord 0)].

(** ColumnWriter.writeBloomFilter (writer.go:2407-2428). *)
Definition write_bloom (pfx fu : bytes) (rg_ord col_ord : Z) : list wmodule :=
  [mkMod MBloomHdr (make_aad pfx fu MBloomHdr rg_ord col_ord 0);
   mkMod MBloomBits (make_aad pfx fu MBloomBits rg_ord col_ord 0)].

(** One written column chunk.  Positions are module indexes relative to the
    start of the chunk (the Go code keeps byte offsets).
    [wc_mods]        the chunk's page modules in file order;
    [wc_dict_offset] MetaData.DictionaryPageOffset (None = 0 = no dictionary);
    [wc_data_offset] MetaData.DataPageOffset;
    [wc_page_locs]   OffsetIndex.PageLocations[i].Offset;
    [wc_bloom]       the bloom filter modules at MetaData.BloomFilterOffset;
    [wc_col_index], [wc_off_index]  the page index modules;
    [wc_col_meta]    ColumnChunk.EncryptedColumnMetadata (plaintext footer). *)
Record wchunk := mkWChunk {
  wc_mods : list wmodule;
  wc_dict_offset : option nat;
  wc_data_offset : nat;
  wc_page_locs : list nat;
  wc_bloom : list wmodule;
  wc_col_index : wmodule;
  wc_off_index : wmodule;
  wc_col_meta : option wmodule
}.

Fixpoint page_locs (base n : nat) : list nat :=
  match n with
  | O => []
  | S n' => base :: page_locs (2 + base) n'
  end.

(** writeRowGroup for one column (writer.go:1545-1610, 1679-1686, 1699-1737)
    and the two loops of writeFileFooter (1332-1382).  The data pages were
    sealed while they were buffered, with the column writer's counters
    ([c.rowGroupOrdinal], [c.columnOrdinal], [c.numPages] starting at 0 after
    reset, writer.go:2050); the dictionary page is sealed when the row group is
    flushed and is written in front of them. *)
Definition write_chunk (pfx fu : bytes) (encrypted_footer : footer_mode)
    (rg_ord col_ord : Z) (c : chunk) : wchunk :=
  let pages := write_data_pages pfx fu rg_ord col_ord 0 (c_pages c) in
  let dict := if c_dict c then write_dict_page pfx fu rg_ord col_ord else [] in
  let data_offset := length dict in
  mkWChunk
    (dict ++ pages)
    (if c_dict c then Some 0%nat else None)
    data_offset
    (page_locs data_offset (c_pages c))
    (if c_bloom c then write_bloom pfx fu rg_ord col_ord else [])
    (mkMod MColIndex (make_aad pfx fu MColIndex rg_ord col_ord 0))
    (mkMod MOffIndex (make_aad pfx fu MOffIndex rg_ord col_ord 0))
    (if encrypted_footer then None
     else Some (mkMod MColMeta (make_aad pfx fu MColMeta rg_ord col_ord 0))).

(** The columns of a row group: c.columnOrdinal = int16(i) (writer.go:1185). *)
Fixpoint write_columns (pfx fu : bytes) (ef : footer_mode) (rg_ord : Z) (i : nat) (cols : list chunk) : list wchunk :=
  match cols with
  | [] => []
  | c :: rest => write_chunk pfx fu ef rg_ord (Z.of_nat i) c :: write_columns pfx fu ef rg_ord (S i) rest
  end.

(** The row groups: c.rowGroupOrdinal is 0 at first (writer.go:1186) and
    int16(len(w.rowGroups)) after each flushed row group (1510-1523);
    [num_row_groups] is len(w.rowGroups). *)
Fixpoint write_row_groups (pfx fu : bytes) (ef : footer_mode) (num_row_groups : nat) (lay : layout) : list (list wchunk) :=
  match lay with
  | [] => []
  | rg :: rest =>
      write_columns pfx fu ef (Z.of_nat num_row_groups) 0 rg
      :: write_row_groups pfx fu ef (S num_row_groups) rest
  end.

Record wfile := mkWFile {
  wf_row_groups : list (list wchunk);
  wf_footer : wmodule     (* the footer module, or the footer signature *)
}.

Definition write_file (pfx fu : bytes) (ef : footer_mode) (lay : layout) : wfile :=
  mkWFile (write_row_groups pfx fu ef 0 lay)
          (mkMod MFooter (make_aad pfx fu MFooter 0 0 0)).

(** ** What the writer refuses (ordinals must fit their 16-bit field)
    - writeDataPage returns an error once c.numPages > math.MaxInt16
      (writer.go:2535-2540): at most 32768 data pages per encrypted chunk,
      page ordinals 0..32767;
    - writeRowGroup returns ErrTooManyRowGroups when len(w.rowGroups) ==
      MaxRowGroups = math.MaxInt16 (writer.go:1503, limits.go:29): row group
      ordinals 0..32766;
    - a schema has at most MaxColumnIndex+1 = 65535 leaf columns (limits.go:13,
      column.go:238): int16(i) keeps column ordinals apart as 16-bit patterns. *)
Definition max_int16 : N := 32767.
Definition max_row_groups : N := 32767.
Definition max_column_index : N := 65534.

(** The page loop again, with the check of writeDataPage. *)
Fixpoint write_data_pages_chk (pfx fu : bytes) (rg_ord col_ord : Z) (num_pages n : nat) : option (list wmodule) :=
  match n with
  | O => Some []
  | S n' =>
      if (max_int16 <? N.of_nat num_pages)%N then None
      else match write_data_pages_chk pfx fu rg_ord col_ord (S num_pages) n' with
           | Some rest =>
               Some (mkMod MDataHdr (make_aad pfx fu MDataHdr rg_ord col_ord (Z.of_nat num_pages))
                     :: mkMod MDataBody (make_aad pfx fu MDataBody rg_ord col_ord (Z.of_nat num_pages))
                     :: rest)
           | None => None
           end
  end.

(** The decision alone (same test, same counter; [Aad/Proofs.v]
    [pages_accepted_chk] relates it to [write_data_pages_chk]). *)
Fixpoint pages_accepted (num_pages : N) (n : nat) : bool :=
  match n with
  | O => true
  | S n' => if (max_int16 <? num_pages)%N then false else pages_accepted (num_pages + 1) n'
  end.

Definition chunk_accepted (c : chunk) : bool := pages_accepted 0 (c_pages c).

Definition layout_accepted (lay : layout) : bool :=
  (N.of_nat (length lay) <=? max_row_groups)%N &&
  forallb (fun rg => (N.of_nat (length rg) <=? max_column_index + 1)%N && forallb chunk_accepted rg) lay.

(** The writer as a whole: an error (no file) or the written file. *)
Definition write_file_chk (pfx fu : bytes) (ef : footer_mode) (lay : layout) : option wfile :=
  if layout_accepted lay then Some (write_file pfx fu ef lay) else None.

Definition wfile_chunk (wf : wfile) (rg col : nat) : option wchunk :=
  match nth_error (wf_row_groups wf) rg with
  | Some cols => nth_error cols col
  | None => None
  end.

(** * Module positions *)
Inductive modpos :=
| PFooter
| PColMeta (rg col : nat)
| PDictHdr (rg col : nat) | PDictBody (rg col : nat)
| PDataHdr (rg col pg : nat) | PDataBody (rg col pg : nat)
| PBloomHdr (rg col : nat) | PBloomBits (rg col : nat)
| PColIndex (rg col : nat) | POffIndex (rg col : nat).

Definition pos_type (p : modpos) : mtype :=
  match p with
  | PFooter => MFooter | PColMeta _ _ => MColMeta
  | PDictHdr _ _ => MDictHdr | PDictBody _ _ => MDictBody
  | PDataHdr _ _ _ => MDataHdr | PDataBody _ _ _ => MDataBody
  | PBloomHdr _ _ => MBloomHdr | PBloomBits _ _ => MBloomBits
  | PColIndex _ _ => MColIndex | POffIndex _ _ => MOffIndex
  end.

(* (row group, column, page) of a position; unused ones are 0 *)
Definition pos_ords (p : modpos) : nat * nat * nat :=
  match p with
  | PFooter => (0, 0, 0)
  | PColMeta rg col | PDictHdr rg col | PDictBody rg col
  | PBloomHdr rg col | PBloomBits rg col | PColIndex rg col | POffIndex rg col => (rg, col, 0)
  | PDataHdr rg col pg | PDataBody rg col pg => (rg, col, pg)
  end%nat.

(** The AAD of a position in closed form. *)
Definition aad_of_pos (pfx fu : bytes) (p : modpos) : bytes :=
  let '(rg, col, pg) := pos_ords p in
  make_aad pfx fu (pos_type p) (Z.of_nat rg) (Z.of_nat col) (Z.of_nat pg).

Definition layout_chunk (lay : layout) (rg col : nat) : option chunk :=
  match nth_error lay rg with
  | Some cols => nth_error cols col
  | None => None
  end.

(** Does the file hold a module at this position? *)
Definition valid_pos (ef : footer_mode) (lay : layout) (p : modpos) : bool :=
  match p with
  | PFooter => true
  | PColMeta rg col =>
      negb ef && match layout_chunk lay rg col with Some _ => true | None => false end
  | PDictHdr rg col | PDictBody rg col =>
      match layout_chunk lay rg col with Some c => c_dict c | None => false end
  | PDataHdr rg col pg | PDataBody rg col pg =>
      match layout_chunk lay rg col with Some c => (pg <? c_pages c)%nat | None => false end
  | PBloomHdr rg col | PBloomBits rg col =>
      match layout_chunk lay rg col with Some c => c_bloom c | None => false end
  | PColIndex rg col | POffIndex rg col =>
      match layout_chunk lay rg col with Some _ => true | None => false end
  end.

(** What the writer put at a position, found the way a reader finds it:
    through the offsets recorded in the footer and the offset index. *)
Definition wfile_at (wf : wfile) (p : modpos) : option wmodule :=
  match p with
  | PFooter => Some (wf_footer wf)
  | PColMeta rg col =>
      match wfile_chunk wf rg col with Some wc => wc_col_meta wc | None => None end
  | PDictHdr rg col =>
      match wfile_chunk wf rg col with
      | Some wc => match wc_dict_offset wc with Some d => nth_error (wc_mods wc) d | None => None end
      | None => None end
  | PDictBody rg col =>
      match wfile_chunk wf rg col with
      | Some wc => match wc_dict_offset wc with Some d => nth_error (wc_mods wc) (S d) | None => None end
      | None => None end
  | PDataHdr rg col pg =>
      match wfile_chunk wf rg col with
      | Some wc => match nth_error (wc_page_locs wc) pg with Some o => nth_error (wc_mods wc) o | None => None end
      | None => None end
  | PDataBody rg col pg =>
      match wfile_chunk wf rg col with
      | Some wc => match nth_error (wc_page_locs wc) pg with Some o => nth_error (wc_mods wc) (S o) | None => None end
      | None => None end
  | PBloomHdr rg col =>
      match wfile_chunk wf rg col with Some wc => nth_error (wc_bloom wc) 0 | None => None end
  | PBloomBits rg col =>
      match wfile_chunk wf rg col with Some wc => nth_error (wc_bloom wc) 1 | None => None end
  | PColIndex rg col =>
      match wfile_chunk wf rg col with Some wc => Some (wc_col_index wc) | None => None end
  | POffIndex rg col =>
      match wfile_chunk wf rg col with Some wc => Some (wc_off_index wc) | None => None end
  end.

(** * Reader: the page cursor of an encrypted chunk (file.go FilePages) *)
(** [r_stream]   the module the byte stream (f.section / f.rbuf) delivers next;
    [r_ord]      f.dec.dataPageOrd (int16, kept as its 16-bit pattern);
    [r_pending]  f.dec.dictPagePending;
    [r_index]    f.index;
    [r_dict]     f.dictionary != nil. *)
Record rstate := mkR {
  r_stream : nat;
  r_ord : N;
  r_pending : bool;
  r_index : nat;
  r_dict : bool
}.

(** One step of a reader history.
    [RNext dict_encoded]: one iteration of the loop of ReadPage on an
      encrypted chunk = one readEncryptedPage; [dict_encoded] tells whether the
      page turns out to be dictionary-encoded (then readDataPageV1/V2 load the
      dictionary lazily when it is still missing);
    [RSeekIndex target again]: SeekToRow resolved to page [target] through the
      offset index; [again] = the serve-last-page shortcut applies
      (file.go:1598-1601, the stream is not touched);
    [RSeekNoIndex]: SeekToRow without offset index (file.go:1559-1573);
    [RLoadDict]: ReadDictionary (file.go:1159-1166). *)
Inductive rop :=
| RNext (dict_encoded : bool)
| RSeekIndex (target : nat) (again : bool)
| RSeekNoIndex
| RLoadDict.

(** One module read: where in the chunk, and the type and AAD the reader
    expects there (computed from its counters, not from the file). *)
Record revent := mkEv { ev_at : nat; ev_type : mtype; ev_aad : bytes }.

(* FilePages.init (file.go:1117-1151) *)
Definition rinit (wc : wchunk) : rstate :=
  let base := match wc_dict_offset wc with Some d => d | None => wc_data_offset wc end in
  mkR base 0 (match wc_dict_offset wc with Some _ => true | None => false end) 0 false.

Definition inc16 (n : N) : N := ((n + 1) mod 65536)%N.

(* readDictionary (file.go:1323-1370): a fresh reader on the chunk's section,
   positioned at its start; dictionary module types, page ordinal 0 *)
Definition read_dictionary_events (pfx fu : bytes) (rg_ord col_ord : Z) (wc : wchunk) : list revent :=
  let base := match wc_dict_offset wc with Some d => d | None => wc_data_offset wc end in
  [mkEv base MDictHdr (make_aad pfx fu MDictHdr rg_ord col_ord 0);
   mkEv (S base) MDictBody (make_aad pfx fu MDictBody rg_ord col_ord 0)].

Definition is_dict_type (m : mtype) : bool :=
  match m with MDictHdr | MDictBody => true | _ => false end.

Definition rstep (pfx fu : bytes) (rg_ord col_ord : Z) (wc : wchunk) (s : rstate) (o : rop)
    : rstate * list revent :=
  match o with
  | RNext dict_encoded =>
      (* readEncryptedPage (file.go:1500-1547): header then body at the stream
         position; io.ReadFull fails at the end of the chunk *)
      match nth_error (wc_mods wc) (r_stream s), nth_error (wc_mods wc) (S (r_stream s)) with
      | Some hdr, Some _ =>
          let '(ht, bt, ord) :=
            if r_pending s then (MDictHdr, MDictBody, 0%Z)
            else (MDataHdr, MDataBody, Z.of_N (r_ord s)) in
          let evs := [mkEv (r_stream s) ht (make_aad pfx fu ht rg_ord col_ord ord);
                      mkEv (S (r_stream s)) bt (make_aad pfx fu bt rg_ord col_ord ord)] in
          let ord' := if r_pending s then r_ord s else inc16 (r_ord s) in
          (* header.Type of the decrypted header = what the writer put there *)
          if is_dict_type (m_type hdr) then
            (* dictionary page: decoded, or skipped when already loaded; no page returned *)
            (mkR (2 + r_stream s) ord' false (r_index s) true, evs)
          else
            let lazy := dict_encoded && negb (r_dict s) &&
                        match wc_dict_offset wc with Some _ => true | None => false end in
            (mkR (2 + r_stream s) ord' false (S (r_index s)) (r_dict s || lazy),
             evs ++ (if lazy then read_dictionary_events pfx fu rg_ord col_ord wc else []))
      | _, _ => (s, [])
      end
  | RSeekIndex target again =>
      match nth_error (wc_page_locs wc) target with
      | None => (s, [])                       (* ErrSeekOutOfRange *)
      | Some off =>
          if again then (s, [])
          else if (r_index s =? target)%nat then (s, [])   (* file.go:1603-1606 *)
          else
            (* file.go:1608-1613 and the repositioning of the stream *)
            (mkR off (wrapZ 16 (Z.of_nat target)) false target (r_dict s), [])
      end
  | RSeekNoIndex =>
      (mkR (wc_data_offset wc) 0 false
           (match wc_dict_offset wc with Some _ => 1 | None => 0 end)%nat (r_dict s), [])
  | RLoadDict =>
      match wc_dict_offset wc with
      | Some _ =>
          if r_dict s then (s, [])
          else (mkR (r_stream s) (r_ord s) (r_pending s) (r_index s) true,
                read_dictionary_events pfx fu rg_ord col_ord wc)
      | None => (s, [])
      end
  end.

Fixpoint rrun (pfx fu : bytes) (rg_ord col_ord : Z) (wc : wchunk) (s : rstate) (h : list rop)
    : rstate * list revent :=
  match h with
  | [] => (s, [])
  | o :: h' =>
      let '(s1, e1) := rstep pfx fu rg_ord col_ord wc s o in
      let '(s2, e2) := rrun pfx fu rg_ord col_ord wc s1 h' in
      (s2, e1 ++ e2)
  end.

(** Does the writer's module at the place of the event carry the type and AAD
    the reader expects? *)
Definition bytes_eqb (a b : bytes) : bool :=
  (length a =? length b)%nat && forallb (fun '(x, y) => N.eqb x y) (combine a b).

Definition event_agrees (wc : wchunk) (e : revent) : bool :=
  match nth_error (wc_mods wc) (ev_at e) with
  | Some m => mtype_eqb (m_type m) (ev_type e) && bytes_eqb (m_aad m) (ev_aad e)
  | None => false
  end.

(** * Reader: whole file *)
(** One access of a file reader.  The reader's row group ordinal is
    RowGroup.Ordinal, which validateRowGroupOrdinals (reader.go:686-717) forces
    to be the index of the row group; its column ordinal is the index of the
    chunk in the row group (file.go:688-689). *)
Inductive fop :=
| FFooter                       (* OpenFile: footer module or signature *)
| FColMeta (rg col : nat)       (* decryptAllColumnMetadata *)
| FColIndex (rg col : nat)      (* ReadPageIndex / readColumnIndexFrom *)
| FOffIndex (rg col : nat)      (* ReadPageIndex / readOffsetIndex *)
| FBloom (rg col : nat)         (* readBloomFilter: header then bitset *)
| FPages (rg col : nat) (h : list rop).   (* a page cursor and its history *)

(** Each access yields pairs (what the writer put where the reader looks,
    what the reader expects there). *)
Definition fstep (pfx fu : bytes) (wf : wfile) (o : fop) : list (option wmodule * wmodule) :=
  let at_ p := (wfile_at wf p, mkMod (pos_type p) (aad_of_pos pfx fu p)) in
  match o with
  | FFooter => [at_ PFooter]
  | FColMeta rg col => [at_ (PColMeta rg col)]
  | FColIndex rg col => [at_ (PColIndex rg col)]
  | FOffIndex rg col => [at_ (POffIndex rg col)]
  | FBloom rg col => [at_ (PBloomHdr rg col); at_ (PBloomBits rg col)]
  | FPages rg col h =>
      match wfile_chunk wf rg col with
      | None => []
      | Some wc =>
          map (fun e => (nth_error (wc_mods wc) (ev_at e), mkMod (ev_type e) (ev_aad e)))
              (snd (rrun pfx fu (Z.of_nat rg) (Z.of_nat col) wc (rinit wc) h))
      end
  end.

Definition frun (pfx fu : bytes) (wf : wfile) (h : list fop) : list (option wmodule * wmodule) :=
  flat_map (fstep pfx fu wf) h.

Definition wmodule_eqb (a b : wmodule) : bool :=
  mtype_eqb (m_type a) (m_type b) && bytes_eqb (m_aad a) (m_aad b).

Definition pair_agrees (p : option wmodule * wmodule) : bool :=
  match fst p with Some m => wmodule_eqb m (snd p) | None => false end.

(** * Footer modes (writer.go:1699-1737, 1406-1476) *)
(** The fields of one ColumnChunk of the FileMetaData, each either written in
    the clear, present only inside an encrypted module, or absent (zero value,
    not serialised).  Field names are those of format.ColumnChunk (checked
    against the generated thrift table by [footer_fields_known]). *)
Inductive exposure := Clear | Sealed (m : mtype) | Absent.

Import String.

Definition footer_chunk (encrypted_footer : footer_mode) : list (String.string * exposure) :=
  if encrypted_footer then
    (* the whole FileMetaData is the plaintext of the footer module *)
    map (fun f => (fst (fst (fst (fst f))), Sealed MFooter)) thrift_ColumnChunk
  else
    [("FilePath"%string, Absent);
     ("FileOffset"%string, Clear);
     ("MetaData"%string, Absent);          (* c.columnChunk.MetaData = format.ColumnMetaData{} *)
     ("OffsetIndexOffset"%string, Clear);
     ("OffsetIndexLength"%string, Clear);
     ("ColumnIndexOffset"%string, Clear);
     ("ColumnIndexLength"%string, Clear);
     ("CryptoMetadata"%string, Clear);
     ("EncryptedColumnMetadata"%string, Sealed MColMeta)].   (* thrift(MetaData) sealed *)

Definition footer_fields_known (ef : footer_mode) : bool :=
  forallb (fun p => existsb (fun f => String.eqb (fst (fst (fst (fst f)))) (fst p)) thrift_ColumnChunk)
          (footer_chunk ef)
  && (List.length (footer_chunk ef) =? List.length thrift_ColumnChunk)%nat.

(** Where the statistics of a column chunk can be read from: the fields of
    ColumnChunk that carry ColumnMetaData (hence Statistics, min/max, null
    counts, sizes, offsets), and the page index modules. *)
Definition metadata_carriers : list String.string :=
  ["MetaData"%string; "EncryptedColumnMetadata"%string].

Definition clear_metadata_fields (ef : footer_mode) : list String.string :=
  map fst (filter (fun p => match snd p with Clear => existsb (String.eqb (fst p)) metadata_carriers | _ => false end)
                  (footer_chunk ef)).

(** * Oracle entry points *)
Definition oracle_aad (pfx fu : bytes) (code : Z) (rg col pg : Z) : option bytes :=
  match mtype_of_code code with
  | Some m => Some (make_aad pfx fu m rg col pg)
  | None => None
  end.

Definition oracle_accepts (lay : layout) : bool := layout_accepted lay.

(* length field of a module of [plain_len] plaintext bytes; does the streamed
   reader accept it when [avail] bytes follow the field? *)
Definition oracle_envelope (plain_len avail : N) : bytes * bool :=
  (len_field plain_len, stream_accepts (len_field plain_len) avail).

(* which configuration the writer of the file encrypts with (None: it does not encrypt) *)
Definition oracle_effective (via_config : bool) (l : list wopt) : option N :=
  effective_encryption (if via_config then CViaConfig else CDirect) l.

(** All (position, type code, AAD) of a written file, in file order per chunk:
    used by the harness to decrypt every module of real files. *)
Definition chunk_listing (wc : wchunk) : list wmodule :=
  wc_mods wc ++ wc_bloom wc ++ [wc_col_index wc; wc_off_index wc] ++
  match wc_col_meta wc with Some m => [m] | None => [] end.

(** Runs a reader history on one chunk of a written file: for every module
    read, (index in the chunk, expected type code, expected AAD, agrees?). *)
Definition oracle_ordinals (pfx fu : bytes) (ef : footer_mode) (lay : layout) (rg col : nat) (h : list rop)
    : option (list (nat * Z * bytes * bool)) :=
  match wfile_chunk (write_file pfx fu ef lay) rg col with
  | None => None
  | Some wc =>
      Some (map (fun e => (ev_at e, mtype_code (ev_type e), ev_aad e, event_agrees wc e))
                (snd (rrun pfx fu (Z.of_nat rg) (Z.of_nat col) wc (rinit wc) h)))
  end.
