(** Key assignment by column PATH.

    - writer: encrypt.go [columnKeyFor] looks the dot-joined path of the leaf
      column up in EncryptionConfig.ColumnKeys and falls back to the footer key;
      writer.go records in the crypto_metadata of the chunk which of the two it
      was (ENCRYPTION_WITH_COLUMN_KEY carries path_in_schema);
    - reader: file.go (FileRowGroup.init, columnKey, the page index and column
      metadata readers) asks KeyRetriever.ColumnKey with the path_in_schema of
      the crypto_metadata, for every chunk; ErrKeyNotFound leaves the chunk
      without key.
    No proofs here (executable model). *)
From Coq Require Import List NArith Bool.
From PQ Require Import Base.Bytes Aad.Model.
Import ListNotations.

Definition path := list bytes.

Definition dot : N := 46%N.

(* strings.Join(path, ".") *)
Fixpoint join_path (p : path) : bytes :=
  match p with
  | [] => []
  | [a] => a
  | a :: r => a ++ dot :: join_path r
  end.

Section Keys.
  Variable key : Type.

  (* EncryptionConfig.ColumnKeys: a map from the dot-joined path *)
  Definition keymap := list (bytes * key).

  Fixpoint lookup_key (m : keymap) (name : bytes) : option key :=
    match m with
    | [] => None
    | (n, k) :: r => if bytes_eqb n name then Some k else lookup_key r name
    end.

  Inductive crypto_md :=
  | WithFooterKey
  | WithColumnKey (p : path).

  (* the key the modules of the column are sealed with, and the crypto_metadata of its chunks *)
  Definition writer_key (m : keymap) (footer : key) (p : path) : key * crypto_md :=
    match lookup_key m (join_path p) with
    | Some k => (k, WithColumnKey p)
    | None => (footer, WithFooterKey)
    end.

  (* KeyRetriever.ColumnKey; None: ErrKeyNotFound *)
  Definition retriever := path -> option key.

  (* the key the reader opens the modules of a chunk with (None: the column is inaccessible) *)
  Definition reader_key (r : retriever) (footer : key) (md : crypto_md) : option key :=
    match md with
    | WithFooterKey => Some footer
    | WithColumnKey p => r p
    end.
End Keys.

(* oracle: keys are numbers; 0 stands for the footer key *)
Definition oracle_column_key (m : list (bytes * N)) (p : path) : N * bool :=
  match writer_key N m 0%N p with
  | (k, WithColumnKey _) => (k, true)
  | (k, WithFooterKey) => (k, false)
  end.
