(** The module envelope under an idealised AEAD (Aad/Model.v Section Envelope).

    AES-GCM is NOT modelled.  [seal] / [open_] are parameters and everything
    here is conditional on the hypotheses of Section Aead:
    - [open_seal]   correctness: what an honest writer sealed opens to its
                    plaintext under the same key, nonce and AAD;
    - [auth]        idealised authenticity (INT-CTXT): whatever opens was
                    produced by one of the recorded Seal calls with exactly
                    that key, nonce and AAD (no forgeries; nobody else holds a
                    key the readers use);
    - [seal_length] the ciphertext is the plaintext length plus the tag;
    - [aad_unique]  no two recorded Seal calls used the same AAD (discharged
                    for the writer model by [entries_aad_unique] below).
    Confidentiality (ciphertexts reveal nothing about plaintexts) is not
    stated or used anywhere. *)
From Coq Require Import List ZArith NArith Bool Arith Lia.
From Coq Require Import ZifyN ZifyNat ZifyBool.
From PQ Require Import Base.Bytes Base.ListExtra Generated.Consts Aad.Model Aad.Proofs.
Import ListNotations.

Lemma nonce_size_eq : nonce_size = 12%nat. Proof. reflexivity. Qed.
Lemma tag_size_eq : tag_size = 16%nat. Proof. reflexivity. Qed.

Section Aead.
  Variable key : Type.
  Variable seal : key -> bytes -> bytes -> bytes -> bytes.
  Variable open_ : key -> bytes -> bytes -> bytes -> option bytes.

  (** One Seal call of a writer. *)
  Record sealed_mod := mkSealed { s_key : key; s_nonce : bytes; s_aad : bytes; s_plain : bytes }.

  Definition s_cipher (s : sealed_mod) : bytes := seal (s_key s) (s_nonce s) (s_aad s) (s_plain s).

  Definition envelope_of (s : sealed_mod) : bytes :=
    encrypt_module key seal (s_key s) (s_nonce s) (s_aad s) (s_plain s).

  (** Shape of real modules: 12-byte nonces, module length below 2^32. *)
  Definition sealed_shape (s : sealed_mod) : Prop :=
    length (s_nonce s) = nonce_size /\
    (N.of_nat (nonce_size + length (s_cipher s)) < 256 ^ N.of_nat 4)%N.

  Definition seal_length_ok : Prop := forall k n a p, length (seal k n a p) = (length p + tag_size)%nat.

  Lemma envelope_length s : sealed_shape s ->
    length (envelope_of s) = (4 + nonce_size + length (s_cipher s))%nat.
  Proof.
    intros [Hn _]. unfold envelope_of, encrypt_module. fold (s_cipher s).
    rewrite !app_length, to_le_length, Hn. lia.
  Qed.

  (** ** Parsing an envelope the writer produced (possibly followed by more bytes) *)
  Lemma decrypt_envelope k a s rest : seal_length_ok -> sealed_shape s ->
    decrypt_module key open_ k a (envelope_of s ++ rest) = open_ k (s_nonce s) a (s_cipher s).
  Proof.
    intros seal_length [Hn Hlen]. unfold decrypt_module, envelope_of, encrypt_module. fold (s_cipher s).
    set (ct := s_cipher s) in *. set (n := s_nonce s) in *.
    set (x := N.of_nat (nonce_size + length ct)) in *.
    assert (Hct : length ct = (length (s_plain s) + tag_size)%nat) by apply seal_length.
    rewrite nonce_size_eq, tag_size_eq in *.
    assert (L4 : length (to_le 4 x) = 4%nat) by apply to_le_length.
    assert (E : (to_le 4 x ++ n ++ ct) ++ rest = to_le 4 x ++ n ++ ct ++ rest) by now rewrite <- !app_assoc.
    rewrite E.
    assert (F4 : firstn 4 (to_le 4 x ++ n ++ ct ++ rest) = to_le 4 x) by (apply firstn_app_len; exact L4).
    assert (S4 : skipn 4 (to_le 4 x ++ n ++ ct ++ rest) = n ++ ct ++ rest) by (apply skipn_app_len; exact L4).
    assert (S16 : skipn (4 + 12) (to_le 4 x ++ n ++ ct ++ rest) = ct ++ rest).
    { rewrite (app_assoc (to_le 4 x) n). apply skipn_app_len. rewrite app_length. lia. }
    assert (LL : length (to_le 4 x ++ n ++ ct ++ rest) = (4 + 12 + length ct + length rest)%nat).
    { rewrite !app_length. lia. }
    rewrite F4, S4, S16, LL.
    rewrite (of_le_to_le 4 x Hlen). unfold x. rewrite Nat2N.id. rewrite nonce_size_eq.
    destruct (Nat.ltb_spec (4 + 12 + length ct + length rest) 4); [lia|].
    destruct (Nat.ltb_spec (4 + 12 + length ct + length rest) (4 + (12 + length ct))); [lia|].
    destruct (Nat.ltb_spec (12 + length ct) (12 + 16)); [lia|].
    rewrite (firstn_app_len 12 n (ct ++ rest) Hn).
    replace (12 + length ct - 12)%nat with (length ct) by lia.
    rewrite firstn_app_exact. reflexivity.
  Qed.

  (** ** The streamed reader on an envelope the writer produced, of any size *)
  Lemma read_envelope_from_sealed k a s rest : seal_length_ok -> sealed_shape s ->
    read_envelope_from key open_ k a (envelope_of s ++ rest) =
    match open_ k (s_nonce s) a (s_cipher s) with Some p => Some (p, rest) | None => None end.
  Proof.
    intros seal_length Hs. pose proof Hs as [Hn Hlen].
    pose proof (envelope_length s Hs) as Lenv.
    unfold read_envelope_from.
    assert (F4 : firstn 4 (envelope_of s ++ rest) = to_le 4 (N.of_nat (nonce_size + length (s_cipher s)))).
    { unfold envelope_of, encrypt_module. fold (s_cipher s). rewrite <- !app_assoc.
      apply firstn_app_len. apply to_le_length. }
    rewrite F4, (of_le_to_le 4 _ Hlen), Nat2N.id, app_length, Lenv.
    destruct (Nat.ltb_spec (4 + nonce_size + length (s_cipher s) + length rest) 4); [lia|].
    destruct (Nat.ltb_spec (4 + nonce_size + length (s_cipher s) + length rest)
                           (4 + (nonce_size + length (s_cipher s)))); [lia|].
    rewrite (firstn_app_len (4 + (nonce_size + length (s_cipher s))) (envelope_of s) rest) by lia.
    rewrite (skipn_app_len (4 + (nonce_size + length (s_cipher s))) (envelope_of s) rest) by lia.
    rewrite <- (app_nil_r (envelope_of s)) at 1.
    rewrite (decrypt_envelope k a s [] seal_length Hs). reflexivity.
  Qed.

  (** The length field of an envelope is [len_field] of the plaintext length. *)
  Lemma envelope_len_field s : seal_length_ok ->
    envelope_of s = len_field (N.of_nat (length (s_plain s))) ++ s_nonce s ++ s_cipher s.
  Proof.
    intros seal_length. unfold envelope_of, encrypt_module, len_field, module_len_of_plain. fold (s_cipher s).
    unfold s_cipher at 1. rewrite seal_length. do 2 f_equal. lia.
  Qed.

  (** ** What a successful decryption tells about the bytes presented *)
  Lemma decrypt_module_inv k a env p :
    wf_bytes env ->
    decrypt_module key open_ k a env = Some p ->
    exists n ct rest,
      env = to_le 4 (N.of_nat (nonce_size + length ct)) ++ n ++ ct ++ rest /\
      length n = nonce_size /\ open_ k n a ct = Some p.
  Proof.
    intros Hwf. unfold decrypt_module. rewrite nonce_size_eq, tag_size_eq.
    destruct (Nat.ltb_spec (length env) 4) as [|H4]; [discriminate|].
    set (mlen := N.to_nat (of_le (firstn 4 env))).
    destruct (Nat.ltb_spec (length env) (4 + mlen)) as [|Hl]; [discriminate|].
    destruct (Nat.ltb_spec mlen (12 + 16)) as [|Hm]; [discriminate|].
    intros Ho.
    exists (firstn 12 (skipn 4 env)), (firstn (mlen - 12) (skipn (4 + 12) env)),
           (skipn (mlen - 12) (skipn (4 + 12) env)).
    assert (Ls4 : length (skipn 4 env) = (length env - 4)%nat) by apply skipn_length.
    assert (Ls16 : length (skipn (4 + 12) env) = (length env - (4 + 12))%nat) by apply skipn_length.
    assert (Lct : length (firstn (mlen - 12) (skipn (4 + 12) env)) = (mlen - 12)%nat).
    { rewrite firstn_length, Ls16. lia. }
    assert (Ln : length (firstn 12 (skipn 4 env)) = 12%nat).
    { rewrite firstn_length, Ls4. lia. }
    split; [|split; [exact Ln|exact Ho]].
    rewrite Lct. replace (12 + (mlen - 12))%nat with mlen by lia.
    assert (F4 : firstn 4 env = to_le 4 (N.of_nat mlen)).
    { unfold mlen. rewrite N2Nat.id.
      assert (L : length (firstn 4 env) = 4%nat) by (rewrite firstn_length; lia).
      rewrite <- L at 2. symmetry. apply to_le_of_le. apply Forall_firstn. exact Hwf. }
    rewrite <- F4.
    assert (S16 : skipn (4 + 12) env = skipn 12 (skipn 4 env)).
    { rewrite <- (firstn_skipn 4 env) at 1.
      assert (L : length (firstn 4 env) = 4%nat) by (rewrite firstn_length; lia).
      rewrite skipn_app. rewrite L. replace (4 + 12 - 4)%nat with 12%nat by lia.
      rewrite skipn_all2 by lia. reflexivity. }
    rewrite S16. rewrite !firstn_skipn. reflexivity.
  Qed.

  Variable sealed : list sealed_mod.

  (** The AEAD contract, relative to the log [sealed] of all Seal calls. *)
  Definition aead_ok : Prop :=
    seal_length_ok /\
    (* correctness on what was sealed *)
    (forall s, In s sealed ->
       open_ (s_key s) (s_nonce s) (s_aad s) (s_cipher s) = Some (s_plain s)) /\
    (* idealised authenticity *)
    (forall k n a c p, open_ k n a c = Some p ->
       exists s, In s sealed /\ s_key s = k /\ s_nonce s = n /\ s_aad s = a /\ s_plain s = p /\ c = s_cipher s) /\
    (forall s, In s sealed -> sealed_shape s).

  Definition aad_unique : Prop :=
    forall s1 s2, In s1 sealed -> In s2 sealed -> s_aad s1 = s_aad s2 -> s1 = s2.

  (** A reader holding the right key and computing the writer's AAD recovers
      the plaintext of the module. *)
  Theorem decrypt_roundtrip s : aead_ok -> In s sealed ->
    decrypt_module key open_ (s_key s) (s_aad s) (envelope_of s) = Some (s_plain s).
  Proof.
    intros (seal_length & open_seal & auth & shapes) Hs. rewrite <- (app_nil_r (envelope_of s)).
    rewrite decrypt_envelope; [apply open_seal; exact Hs|exact seal_length|apply shapes; exact Hs].
  Qed.

  (** The same through the streamed reader, whatever follows the module in the
      stream and whatever the size of the module (below 2^32, [sealed_shape]). *)
  Theorem stream_roundtrip s rest : aead_ok -> In s sealed ->
    read_envelope_from key open_ (s_key s) (s_aad s) (envelope_of s ++ rest) = Some (s_plain s, rest).
  Proof.
    intros (seal_length & open_seal & auth & shapes) Hs.
    rewrite read_envelope_from_sealed; [|exact seal_length|apply shapes; exact Hs].
    now rewrite (open_seal s Hs).
  Qed.

  (** Master statement: if ANY byte string decrypts under the AAD of a sealed
      module [s], with ANY key, then the key is [s]'s key, the result is [s]'s
      plaintext, and the byte string starts with exactly [s]'s envelope. *)
  Theorem decrypt_only_original s k env p :
    aead_ok -> aad_unique -> In s sealed -> wf_bytes env ->
    decrypt_module key open_ k (s_aad s) env = Some p ->
    k = s_key s /\ p = s_plain s /\ exists rest, env = envelope_of s ++ rest.
  Proof.
    intros (seal_length & open_seal & auth & shapes) aad_uniq Hs Hwf Hd.
    destruct (decrypt_module_inv k (s_aad s) env p Hwf Hd) as (n & ct & rest & He & Hn & Ho).
    destruct (auth _ _ _ _ _ Ho) as (s' & Hs' & Hk & Hn' & Ha & Hp & Hc).
    assert (s' = s) by (apply aad_uniq; assumption). subst s'.
    split; [symmetry; exact Hk|]. split; [symmetry; exact Hp|].
    exists rest. rewrite He. unfold envelope_of, encrypt_module. fold (s_cipher s).
    rewrite Hc, Hn'. now rewrite <- !app_assoc.
  Qed.

  (** ** Consequences: every kind of tampering makes the read fail *)
  Corollary wrong_key_fails s k env :
    aead_ok -> aad_unique -> In s sealed -> wf_bytes env -> k <> s_key s ->
    decrypt_module key open_ k (s_aad s) env = None.
  Proof.
    intros Hok Hu Hs Hwf Hk. destruct (decrypt_module key open_ k (s_aad s) env) as [p|] eqn:E; [|reflexivity].
    destruct (decrypt_only_original s k env p Hok Hu Hs Hwf E) as [H _]. contradiction.
  Qed.

  Corollary modified_fails s k env :
    aead_ok -> aad_unique -> In s sealed -> wf_bytes env ->
    length env = length (envelope_of s) -> env <> envelope_of s ->
    decrypt_module key open_ k (s_aad s) env = None.
  Proof.
    intros Hok Hu Hs Hwf Hl Hne. destruct (decrypt_module key open_ k (s_aad s) env) as [p|] eqn:E; [|reflexivity].
    destruct (decrypt_only_original s k env p Hok Hu Hs Hwf E) as (_ & _ & rest & Hr).
    exfalso. apply Hne. rewrite Hr in Hl. rewrite app_length in Hl.
    destruct rest; [now rewrite app_nil_r in Hr|cbn in Hl; lia].
  Qed.

  Corollary truncated_fails s k m :
    aead_ok -> aad_unique -> In s sealed -> wf_bytes (envelope_of s) -> (m < length (envelope_of s))%nat ->
    decrypt_module key open_ k (s_aad s) (firstn m (envelope_of s)) = None.
  Proof.
    intros Hok Hu Hs Hwf Hm.
    destruct (decrypt_module key open_ k (s_aad s) (firstn m (envelope_of s))) as [p|] eqn:E; [|reflexivity].
    destruct (decrypt_only_original s k _ p Hok Hu Hs (Forall_firstn _ _ _ Hwf) E) as (_ & _ & rest & Hr).
    exfalso. apply (f_equal (@length N)) in Hr. rewrite firstn_length, app_length in Hr. lia.
  Qed.

  Lemma envelope_wf s : wf_bytes (s_nonce s) -> wf_bytes (s_cipher s) -> wf_bytes (envelope_of s).
  Proof.
    intros Hn Hc. unfold envelope_of, encrypt_module. fold (s_cipher s).
    apply wf_bytes_app. split; [apply to_le_wf|]. apply wf_bytes_app. split; assumption.
  Qed.

  (** A module replaced by another sealed module -- another page, column, row
      group, or a module of another file written with the same keys -- is
      rejected.  (If both envelopes were byte-for-byte equal nothing would have
      been replaced; distinct random nonces exclude that.) *)
  Corollary transplant_fails s s2 k :
    aead_ok -> aad_unique -> In s sealed -> In s2 sealed -> wf_bytes (envelope_of s2) ->
    s_nonce s2 <> s_nonce s ->
    decrypt_module key open_ k (s_aad s) (envelope_of s2) = None.
  Proof.
    intros Hok Hu Hs Hs2 Hwf Hne.
    destruct (decrypt_module key open_ k (s_aad s) (envelope_of s2)) as [p|] eqn:E; [|reflexivity].
    destruct (decrypt_only_original s k _ p Hok Hu Hs Hwf E) as (_ & _ & rest & Hr).
    exfalso. apply Hne. destruct Hok as (_ & _ & _ & shapes).
    destruct (shapes s Hs) as [Hn1 _]. destruct (shapes s2 Hs2) as [Hn2 _].
    unfold envelope_of, encrypt_module in Hr. rewrite <- !app_assoc in Hr.
    apply app_eq_len in Hr; [|now rewrite !to_le_length]. destruct Hr as [_ Hr].
    apply app_eq_len in Hr; [|congruence]. tauto.
  Qed.
End Aead.

(** * The streamed reader accepts every length field the writer writes *)
Lemma stream_accepts_len_field plain_len avail :
  (module_len_of_plain plain_len < 256 ^ 4)%N -> (module_len_of_plain plain_len <= avail)%N ->
  stream_accepts (len_field plain_len) avail = true.
Proof.
  intros Hlt Hav. unfold stream_accepts, len_field.
  rewrite (of_le_to_le 4 _ Hlt).
  apply andb_true_intro. split; [now apply N.leb_le|].
  apply N.leb_le. unfold module_len_of_plain. rewrite Nat2N.inj_add. lia.
Qed.

(** * The Seal calls of the writer model have pairwise distinct AADs *)
Section Entries.
  Variable key : Type.

  (** One Seal call: the file (AAD prefix, file identifier), the position of
      the module in it, and key, nonce, plaintext. *)
  Record entry := mkEntry {
    e_pfx : bytes; e_fu : bytes; e_pos : modpos;
    e_key : key; e_nonce : bytes; e_plain : bytes
  }.

  Definition sealed_of_entry (e : entry) : sealed_mod key :=
    mkSealed key (e_key e) (e_nonce e) (aad_of_pos (e_pfx e) (e_fu e) (e_pos e)) (e_plain e).

  (** The log of a set of writers: every module was sealed at a position of a
      layout whose ordinals fit 16 bits; AAD prefixes and file identifiers have
      the same lengths across the files; no two Seal calls are for the same
      position of the same file (equal identifiers = same file). *)
  Definition entries_ok (es : list entry) : Prop :=
    (forall e, In e es -> exists ef lay, wf_layout lay /\ valid_pos ef lay (e_pos e) = true) /\
    (forall e1 e2, In e1 es -> In e2 es ->
       length (e_pfx e1) = length (e_pfx e2) /\ length (e_fu e1) = length (e_fu e2)) /\
    (forall e1 e2, In e1 es -> In e2 es ->
       e_pfx e1 = e_pfx e2 -> e_fu e1 = e_fu e2 -> e_pos e1 = e_pos e2 -> e1 = e2).

  Theorem entries_aad_unique es : entries_ok es -> aad_unique key (map sealed_of_entry es).
  Proof.
    intros (Hpos & Hlen & Huniq) s1 s2 H1 H2 Ha.
    apply in_map_iff in H1. destruct H1 as (e1 & <- & He1).
    apply in_map_iff in H2. destruct H2 as (e2 & <- & He2).
    cbn [sealed_of_entry s_aad] in Ha.
    destruct (Hpos e1 He1) as (ef1 & lay1 & Hw1 & Hv1).
    destruct (Hpos e2 He2) as (ef2 & lay2 & Hw2 & Hv2).
    destruct (Hlen e1 e2 He1 He2) as [Lp Lf].
    assert (R1 : pos_in_range (e_pos e1)) by exact (valid_pos_in_range ef1 lay1 _ Hw1 Hv1).
    assert (R2 : pos_in_range (e_pos e2)) by exact (valid_pos_in_range ef2 lay2 _ Hw2 Hv2).
    apply aad_of_pos_injective in Ha; try assumption.
    destruct Ha as (Ep & Ef & Epos). f_equal. apply Huniq; assumption.
  Qed.
End Entries.

(** * A toy AEAD meeting the hypotheses (non-vacuity) *)
(** Keys are byte strings; Seal appends a constant 16-byte tag; Open succeeds
    exactly on the recorded Seal calls.  It has no cryptographic content: it
    only shows that the hypotheses of Section Aead are jointly satisfiable. *)
Definition toy_seal (k n a p : bytes) : bytes := p ++ repeat 0%N 16.

Definition toy_match (k n a c : bytes) (s : sealed_mod bytes) : bool :=
  bytes_eqb (s_key bytes s) k && bytes_eqb (s_nonce bytes s) n && bytes_eqb (s_aad bytes s) a &&
  bytes_eqb (toy_seal (s_key bytes s) (s_nonce bytes s) (s_aad bytes s) (s_plain bytes s)) c.

Definition toy_open (sealed : list (sealed_mod bytes)) (k n a c : bytes) : option bytes :=
  match find (toy_match k n a c) sealed with
  | Some s => Some (s_plain bytes s)
  | None => None
  end.

Lemma toy_seal_length : seal_length_ok bytes toy_seal.
Proof. intros k n a p. unfold toy_seal. rewrite app_length, repeat_length. reflexivity. Qed.

Lemma toy_match_true k n a c s : toy_match k n a c s = true ->
  s_key bytes s = k /\ s_nonce bytes s = n /\ s_aad bytes s = a /\ c = s_cipher bytes toy_seal s.
Proof.
  unfold toy_match. rewrite !andb_true_iff. intros [[[H1 H2] H3] H4].
  apply bytes_eqb_eq in H1, H2, H3, H4. unfold s_cipher. repeat split; auto.
Qed.

Lemma toy_open_seal sealed s : In s sealed ->
  toy_open sealed (s_key bytes s) (s_nonce bytes s) (s_aad bytes s) (s_cipher bytes toy_seal s) = Some (s_plain bytes s).
Proof.
  intros Hs. unfold toy_open.
  destruct (find _ sealed) as [s0|] eqn:E.
  - apply find_some in E. destruct E as [_ E]. apply toy_match_true in E.
    destruct E as (_ & _ & _ & Hc). unfold s_cipher, toy_seal in Hc.
    apply app_inv_tail in Hc. now rewrite Hc.
  - exfalso. apply (find_none _ _ E) in Hs. unfold toy_match, s_cipher in Hs.
    now rewrite !bytes_eqb_refl in Hs.
Qed.

Lemma toy_auth sealed k n a c p : toy_open sealed k n a c = Some p ->
  exists s, In s sealed /\ s_key bytes s = k /\ s_nonce bytes s = n /\ s_aad bytes s = a /\
            s_plain bytes s = p /\ c = s_cipher bytes toy_seal s.
Proof.
  unfold toy_open. destruct (find _ sealed) as [s0|] eqn:E; [|discriminate].
  intros H. injection H as <-. apply find_some in E. destruct E as [Hin E].
  apply toy_match_true in E. destruct E as (A & B & C & D).
  exists s0. repeat split; assumption.
Qed.

Lemma toy_aead_ok sealed :
  (forall s, In s sealed -> sealed_shape bytes toy_seal s) ->
  aead_ok bytes toy_seal (toy_open sealed) sealed.
Proof.
  intros Hs. split; [exact toy_seal_length|]. split; [exact (toy_open_seal sealed)|].
  split; [exact (toy_auth sealed)|exact Hs].
Qed.
