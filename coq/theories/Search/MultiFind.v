(** Find (search.go) run against the column index of a MultiRowGroup column
    chunk (multi_row_group.go multiColumnIndex): the pages are the pages of the
    chunks' indexes one chunk after the other, and the IsAscending flag that
    Find reads is computed by isOrdered.  The model of that index is
    Stats/Multi.v ([multi_pages], [multi_is_ordered]); this file only composes
    it with the model of Find.  Executable, no proofs (Search/MultiFindProofs.v).

    A chunk is given with what its own index claims: [(ascending, pages)]. *)
From Coq Require Import List ZArith Bool Arith.
From PQ Require Import Search.Model Stats.Multi.
Import ListNotations.
Open Scope Z_scope.

Section MultiFind.
  Variable V : Type.
  Variable cmp : V -> V -> Z.
  (* the comparator handed to Find *)
  Variable c : val V -> val V -> Z.

  (* multiColumnIndex.IsAscending: isOrdered(ColumnIndex.IsAscending, +1) *)
  Definition multi_ascending (chunks : list (bool * index V)) : bool :=
    multi_is_ordered cmp true (map fst chunks) (map snd chunks).

  (* Find(index, v, c) with index = the column index of the multi column chunk *)
  Definition multi_find (chunks : list (bool * index V)) (v : val V) : nat :=
    find c (multi_ascending chunks) (multi_pages (map snd chunks)) v.

  (** IsAscending as it was before the repair c5b5a77 (kept to show that the
      faithful model of that code refutes the property): only ADJACENT chunks
      were compared and a pair was skipped when either side held only null
      pages, so a chunk of null pages separated its neighbours.
        "for i := range len(m.indexes) - 1 { ...
           if lastPage >= 0 && firstPage < numPages {
             if cmp(currMax, nextMin) > 0 { return false } } }" *)
  Fixpoint adjacent_ordered_pinned (chunks : list (index V)) : bool :=
    match chunks with
    | cur :: (next :: _) as rest =>
        match last_nonnull cur, first_nonnull next with
        | Some (_, cmax), Some (nmin, _) =>
            if cmp cmax nmin >? 0 then false else adjacent_ordered_pinned rest
        | _, _ => adjacent_ordered_pinned rest
        end
    | _ => true
    end.

  Definition multi_ascending_pinned (chunks : list (bool * index V)) : bool :=
    match chunks with
    | [] => false
    | _ => forallb (fun b => b) (map fst chunks) && adjacent_ordered_pinned (map snd chunks)
    end.

  Definition multi_find_pinned (chunks : list (bool * index V)) (v : val V) : nat :=
    find c (multi_ascending_pinned chunks) (multi_pages (map snd chunks)) v.
End MultiFind.

Arguments multi_ascending {V}.
Arguments multi_find {V}.
Arguments multi_ascending_pinned {V}.
Arguments multi_find_pinned {V}.

(** Instances used by the extracted oracle *)
Definition multi_ascending_Z (chunks : list (bool * list (option (Z * Z)))) : bool :=
  multi_ascending cmpZ chunks.

Definition multi_find_Z (nulls_first : bool) (chunks : list (bool * list (option (Z * Z)))) (v : Z) : nat :=
  multi_find cmpZ (if nulls_first then cmp_nulls_first cmpZ else cmp_nulls_last cmpZ) chunks (Some v).

Definition multi_ascending_bytes (chunks : list (bool * list (option (list N * list N)))) : bool :=
  multi_ascending cmp_bytes chunks.

Definition multi_find_bytes (nulls_first : bool)
           (chunks : list (bool * list (option (list N * list N)))) (v : list N) : nat :=
  multi_find cmp_bytes (if nulls_first then cmp_nulls_first cmp_bytes else cmp_nulls_last cmp_bytes)
             chunks (Some v).
