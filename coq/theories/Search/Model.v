(** Model of search.go (Find / binarySearch / linearSearch) and of the
    null-ordering wrappers of compare.go.  Executable; proofs are in
    Search/Proofs.v so that the model still runs when a proof breaks.

    A column index is a list of pages; a page is [None] when it is a null
    page (the Go accessors MinValue/MaxValue then return the null Value) and
    [Some (min, max)] otherwise.  Values are [option V], [None] being the null
    Value.  The comparison [cmp] returns an integer whose sign is the order,
    as Go's [Type.Compare] does. *)
From Coq Require Import List ZArith Bool Arith.
Import ListNotations.
Open Scope Z_scope.

Section Search.
  Variable V : Type.
  Variable cmp : V -> V -> Z.

  Definition val := option V.
  Definition page := option (V * V).
  Definition index := list page.

  (* compare.go CompareNullsLast / CompareNullsFirst *)
  Definition cmp_nulls_last (a b : val) : Z :=
    match a, b with
    | None, None => 0
    | None, Some _ => 1
    | Some _, None => -1
    | Some x, Some y => cmp x y
    end.

  Definition cmp_nulls_first (a b : val) : Z :=
    match a, b with
    | None, None => 0
    | None, Some _ => -1
    | Some _, None => 1
    | Some x, Some y => cmp x y
    end.

  (* column_index.go: formatColumnIndex / FileColumnIndex accessors *)
  Definition null_page (idx : index) (i : nat) : bool :=
    match nth_error idx i with
    | Some (Some _) => false
    | _ => true
    end.

  Definition min_value (idx : index) (i : nat) : val :=
    match nth_error idx i with
    | Some (Some (mn, _)) => Some mn
    | _ => None
    end.

  Definition max_value (idx : index) (i : nat) : val :=
    match nth_error idx i with
    | Some (Some (_, mx)) => Some mx
    | _ => None
    end.

  Section WithComparator.
    (* the comparator handed to Find: values and page bounds, nulls included *)
    Variable c : val -> val -> Z.

    (* search.go linearSearch *)
    Fixpoint linear_from (idx : index) (v : val) (i : nat) (ps : list page) : nat :=
      match ps with
      | [] => i
      | _ :: rest =>
          if (c (min_value idx i) v <=? 0) && (c v (max_value idx i) <=? 0)
          then i
          else linear_from idx v (S i) rest
      end.

    Definition linear_search (idx : index) (v : val) : nat :=
      linear_from idx v 0%nat idx.

    (* the probe loop: first non-null page in [i, top) or top *)
    Fixpoint skip_nulls (idx : index) (fuel : nat) (i top : nat) : nat :=
      match fuel with
      | O => i
      | S f => if (i <? top)%nat && null_page idx i
               then skip_nulls idx f (S i) top
               else i
      end.

    (* search.go binarySearch (after the repair: null pages are skipped when
       probing, the first matching page found so far is kept in [result]) *)
    Fixpoint bsearch (fuel : nat) (idx : index) (v : val)
             (cur top result : nat) : nat :=
      match fuel with
      | O => result
      | S f =>
          if (cur <? top)%nat then
            let next := ((top - cur) / 2 + cur)%nat in
            let probe := skip_nulls idx (top - next) next top in
            if (probe =? top)%nat then bsearch f idx v cur next result
            else if c v (min_value idx probe) <? 0 then bsearch f idx v cur next result
            else if c v (max_value idx probe) >? 0 then bsearch f idx v (S probe) top result
            else bsearch f idx v cur next probe
          else result
      end.

    Definition binary_search (idx : index) (v : val) : nat :=
      let n := length idx in
      bsearch (S n) idx v 0%nat n n.

    (* search.go Find *)
    Definition find (ascending : bool) (idx : index) (v : val) : nat :=
      if ascending then binary_search idx v else linear_search idx v.

    (** The binary search of the pinned tree (before the repair), kept to show
        that the faithful model of that code refutes the property. *)
    Fixpoint bsearch_pinned (fuel : nat) (idx : index) (v : val) (cur top : nat) : nat :=
      match fuel with
      | O => cur
      | S f =>
          if (cur <? top)%nat then
            let next := ((top - cur) / 2 + cur)%nat in
            if c v (min_value idx next) <? 0 then bsearch_pinned f idx v cur next
            else if c v (max_value idx next) >? 0 then bsearch_pinned f idx v (S next) top
            else bsearch_pinned f idx v cur next
          else cur
      end.

    Definition binary_search_pinned (idx : index) (v : val) : nat :=
      let n := length idx in
      let cur := bsearch_pinned (S n) idx v 0%nat n in
      if (cur <? n)%nat then
        if (c v (min_value idx cur) <? 0) || (c v (max_value idx cur) >? 0)
        then n else cur
      else cur.
  End WithComparator.

  (* search.go Search = Find with CompareNullsLast *)
  Definition search (ascending : bool) (idx : index) (v : val) : nat :=
    find cmp_nulls_last ascending idx v.
End Search.

Arguments cmp_nulls_last {V}.
Arguments cmp_nulls_first {V}.
Arguments null_page {V}.
Arguments min_value {V}.
Arguments max_value {V}.
Arguments skip_nulls {V}.
Arguments linear_search {V}.
Arguments binary_search {V}.
Arguments binary_search_pinned {V}.
Arguments find {V}.
Arguments search {V}.

(** Instances used by the extracted oracle: signed integers and byte strings
    (lexicographic, as bytes.Compare). *)
Definition cmpZ (a b : Z) : Z :=
  match Z.compare a b with Lt => -1 | Eq => 0 | Gt => 1 end.

Fixpoint cmp_bytes (a b : list N) : Z :=
  match a, b with
  | [], [] => 0
  | [], _ :: _ => -1
  | _ :: _, [] => 1
  | x :: a', y :: b' =>
      match N.compare x y with
      | Lt => -1
      | Gt => 1
      | Eq => cmp_bytes a' b'
      end
  end.

Definition find_Z (nulls_first ascending : bool) (idx : list (option (Z * Z))) (v : Z) : nat :=
  find (if nulls_first then cmp_nulls_first cmpZ else cmp_nulls_last cmpZ) ascending idx (Some v).

Definition find_bytes (nulls_first ascending : bool)
           (idx : list (option (list N * list N))) (v : list N) : nat :=
  find (if nulls_first then cmp_nulls_first cmp_bytes else cmp_nulls_last cmp_bytes)
       ascending idx (Some v).
