(** Proofs about Search/Model.v: Find never misses a page that contains the
    value, for every column index (null pages anywhere, overlapping, duplicate
    or truncated bounds) and every comparison that is a total preorder. *)
From Coq Require Import List ZArith Bool Arith Lia.
From PQ Require Import Search.Model.
Import ListNotations.
Open Scope Z_scope.

Section Proofs.
  Variable V : Type.
  Variable cmp : V -> V -> Z.
  Hypothesis cmp_opp : forall a b, cmp a b < 0 <-> cmp b a > 0.
  Hypothesis cmp_trans : forall a b d, cmp a b <= 0 -> cmp b d <= 0 -> cmp a d <= 0.

  (* the comparator handed to Find agrees with [cmp] on non-null values and
     never puts null both below and above a value (true of both wrappers) *)
  Variable c : val V -> val V -> Z.
  Hypothesis c_nonnull : forall a b, c (Some a) (Some b) = cmp a b.
  Hypothesis c_null_excl : forall v, ~ (c None (Some v) <= 0 /\ c (Some v) None <= 0).

  Definition contains (idx : index V) (p : nat) (v : V) : Prop :=
    exists mn mx, nth_error idx p = Some (Some (mn, mx)) /\ cmp mn v <= 0 /\ cmp v mx <= 0.

  (* what an index that claims Ascending promises: over the non-null pages,
     mins and maxes are non-decreasing (null pages anywhere in between) *)
  Definition ascending_nonnull (idx : index V) : Prop :=
    forall i j mi xi mj xj, (i < j)%nat ->
      nth_error idx i = Some (Some (mi, xi)) ->
      nth_error idx j = Some (Some (mj, xj)) ->
      cmp mi mj <= 0 /\ cmp xi xj <= 0.

  Lemma contains_lt_length idx p v : contains idx p v -> (p < length idx)%nat.
  Proof.
    intros (mn & mx & H & _). apply nth_error_Some. rewrite H. discriminate.
  Qed.

  (** * Linear search *)

  Lemma test_iff idx k v :
    (c (min_value idx k) (Some v) <=? 0) && (c (Some v) (max_value idx k) <=? 0) = true
    <-> contains idx k v.
  Proof.
    unfold min_value, max_value, contains.
    rewrite andb_true_iff, !Z.leb_le.
    destruct (nth_error idx k) as [[[mn mx]|]|] eqn:E.
    - rewrite !c_nonnull. split.
      + intros [H1 H2]. exists mn, mx. auto.
      + intros (mn' & mx' & H & H1 & H2). inversion H; subst. auto.
    - split.
      + intros H. exfalso. exact (c_null_excl v H).
      + intros (mn' & mx' & H & _). discriminate.
    - split.
      + intros H. exfalso. exact (c_null_excl v H).
      + intros (mn' & mx' & H & _). discriminate.
  Qed.

  Lemma linear_from_spec idx v ps : forall i,
    let r := linear_from V c idx (Some v) i ps in
    (i <= r <= i + length ps)%nat /\
    ((r < i + length ps)%nat -> contains idx r v) /\
    (forall k, (i <= k < r)%nat -> ~ contains idx k v).
  Proof.
    induction ps as [|p ps IH]; intros i; cbn [linear_from length].
    - split; [lia|split]; [intros; lia|intros k Hk; lia].
    - destruct ((c (min_value idx i) (Some v) <=? 0) && (c (Some v) (max_value idx i) <=? 0)) eqn:T.
      + split; [lia|split].
        * intros _. apply test_iff. exact T.
        * intros k Hk. lia.
      + specialize (IH (S i)). cbv zeta in IH. destruct IH as (Hr & Hc & Hn).
        split; [lia|split].
        * intros Hlt. apply Hc. lia.
        * intros k Hk Hcon.
          destruct (Nat.eq_dec k i) as [->|Hne].
          -- apply test_iff in Hcon. rewrite T in Hcon. discriminate.
          -- apply (Hn k); [lia|exact Hcon].
  Qed.

  Lemma linear_search_spec idx v :
    let r := linear_search c idx (Some v) in
    (r <= length idx)%nat /\
    ((r < length idx)%nat -> contains idx r v) /\
    (forall k, (k < r)%nat -> ~ contains idx k v).
  Proof.
    unfold linear_search. pose proof (linear_from_spec idx v idx 0%nat) as H.
    cbv zeta in H. destruct H as (Hr & Hc & Hn). cbv zeta.
    split; [lia|split].
    - intros Hlt. apply Hc. lia.
    - intros k Hk. apply Hn. lia.
  Qed.

  (** * Binary search *)

  Lemma null_page_not_contains idx k v : null_page idx k = true -> ~ contains idx k v.
  Proof.
    unfold null_page. intros Hn (mn & mx & H & _). rewrite H in Hn. discriminate.
  Qed.

  Lemma skip_nulls_spec (idx : index V) top : forall fuel i,
    (i <= top)%nat -> (top - i <= fuel)%nat ->
    let r := skip_nulls idx fuel i top in
    (i <= r <= top)%nat /\
    (forall k, (i <= k < r)%nat -> null_page idx k = true) /\
    ((r < top)%nat -> null_page idx r = false).
  Proof.
    induction fuel as [|f IH]; intros i Hi Hf; cbn [skip_nulls].
    - assert (i = top) by lia. subst. split; [lia|split]; [intros k Hk; lia|intros; lia].
    - destruct (Nat.ltb_spec i top) as [Hlt|Hge]; cbn [andb].
      + destruct (null_page idx i) eqn:Np.
        * specialize (IH (S i) ltac:(lia) ltac:(lia)). cbv zeta in IH.
          destruct IH as (Hr & Hk & Hz). split; [lia|split].
          -- intros k Hkr. destruct (Nat.eq_dec k i) as [->|Hne]; [exact Np|].
             apply Hk. lia.
          -- exact Hz.
        * split; [lia|split]; [intros k Hk; lia|intros; exact Np].
      + split; [lia|split]; [intros k Hk; lia|intros; lia].
  Qed.

  Lemma nonnull_page (idx : index V) k : null_page idx k = false ->
    exists mn mx, nth_error idx k = Some (Some (mn, mx)).
  Proof.
    unfold null_page. destruct (nth_error idx k) as [[[mn mx]|]|]; try discriminate.
    intros _. exists mn, mx. reflexivity.
  Qed.

  Lemma bsearch_spec idx v (Hasc : ascending_nonnull idx) : forall fuel cur top result,
    let n := length idx in
    (top - cur < fuel)%nat ->
    (cur <= top)%nat -> (top <= result)%nat -> (result <= n)%nat ->
    (forall p, (p < cur)%nat -> ~ contains idx p v) ->
    (forall p, (top <= p < result)%nat -> ~ contains idx p v) ->
    (result = n \/ contains idx result v) ->
    let r := bsearch V c fuel idx (Some v) cur top result in
    (r = n \/ contains idx r v) /\ (forall p, (p < r)%nat -> ~ contains idx p v).
  Proof.
    induction fuel as [|f IH]; intros cur top result n Hf Hct Htr Hrn I1 I2 I3;
      [lia|]. cbn [bsearch].
    destruct (Nat.ltb_spec cur top) as [Hlt|Hge].
    2:{ (* loop exit: cur = top *)
      cbv zeta. split; [exact I3|]. intros p Hp.
      destruct (Nat.lt_ge_cases p cur) as [Hpc|Hpc]; [apply I1; exact Hpc|].
      apply I2. lia. }
    set (next := ((top - cur) / 2 + cur)%nat).
    assert (Hnext : (cur <= next < top)%nat).
    { subst next. pose proof (Nat.div_lt_upper_bound (top - cur) 2 (top - cur)) as Hd.
      assert ((top - cur) / 2 < top - cur)%nat by (apply Nat.div_lt; lia). lia. }
    pose proof (skip_nulls_spec idx top (top - next) next ltac:(lia) ltac:(lia)) as Hs.
    cbv zeta in Hs. set (probe := skip_nulls idx (top - next) next top) in *.
    destruct Hs as (Hpr & Hnulls & Hnn).
    destruct (Nat.eqb_spec probe top) as [Heq|Hneq].
    { (* only null pages in [next, top) *)
      apply IH; try lia; auto.
      intros p Hp Hcon.
      destruct (Nat.lt_ge_cases p top) as [Hpt|Hpt].
      - apply (null_page_not_contains idx p v); [apply Hnulls; lia|exact Hcon].
      - apply (I2 p); [lia|exact Hcon]. }
    assert (Hpt : (probe < top)%nat) by lia.
    destruct (nonnull_page idx probe (Hnn Hpt)) as (pmn & pmx & Eprobe).
    unfold min_value, max_value. rewrite Eprobe, !c_nonnull.
    destruct (Z.ltb_spec (cmp v pmn) 0) as [Hmin|Hmin].
    { (* value < min(probe): not in probe nor any later page *)
      apply IH; try lia; auto.
      intros p Hp (mn & mx & Ep & Hp1 & Hp2).
      destruct (Nat.lt_ge_cases p probe) as [Hpp|Hpp].
      - assert (Hnull : null_page idx p = true) by (apply Hnulls; lia).
        unfold null_page in Hnull. rewrite Ep in Hnull. discriminate.
      - assert (Hle : cmp pmn mn <= 0).
        { destruct (Nat.eq_dec p probe) as [->|Hne].
          - rewrite Eprobe in Ep. inversion Ep; subst.
            destruct (Z.le_gt_cases (cmp mn mn) 0) as [H|H]; [exact H|].
            assert (cmp mn mn < 0) by (apply cmp_opp; lia). lia.
          - destruct (Hasc probe p pmn pmx mn mx ltac:(lia) Eprobe Ep) as [H _]. exact H. }
        pose proof (cmp_trans _ _ _ Hle Hp1) as Hc.
        apply cmp_opp in Hmin. lia. }
    destruct (Z.gtb_spec (cmp v pmx) 0) as [Hmax|Hmax].
    { (* value > max(probe): not in probe nor any earlier page *)
      apply IH; try lia; auto.
      intros p Hp (mn & mx & Ep & Hp1 & Hp2).
      destruct (Nat.lt_ge_cases p cur) as [Hpc|Hpc].
      { apply (I1 p Hpc). exists mn, mx. auto. }
      assert (Hle : cmp mx pmx <= 0).
      { destruct (Nat.eq_dec p probe) as [->|Hne].
        - rewrite Eprobe in Ep. inversion Ep; subst.
          destruct (Z.le_gt_cases (cmp mx mx) 0) as [H|H]; [exact H|].
          assert (cmp mx mx < 0) by (apply cmp_opp; lia). lia.
        - destruct (Hasc p probe mn mx pmn pmx ltac:(lia) Ep Eprobe) as [_ H]. exact H. }
      pose proof (cmp_trans _ _ _ Hp2 Hle) as Hc. lia. }
    (* min <= value <= max: remember probe, keep searching to the left *)
    apply IH; try lia; auto.
    - intros p Hp. apply null_page_not_contains. apply Hnulls. lia.
    - right. exists pmn, pmx. split; [exact Eprobe|]. split; [|lia].
      destruct (Z.le_gt_cases (cmp pmn v) 0) as [H|H]; [exact H|].
      assert (cmp v pmn < 0) by (apply cmp_opp; lia). lia.
  Qed.

  Lemma binary_search_spec idx v (Hasc : ascending_nonnull idx) :
    let r := binary_search c idx (Some v) in
    (r = length idx \/ contains idx r v) /\ (forall p, (p < r)%nat -> ~ contains idx p v).
  Proof.
    unfold binary_search.
    apply (bsearch_spec idx v Hasc (S (length idx)) 0%nat (length idx) (length idx));
      try lia; try (intros p Hp; lia); try (left; reflexivity).
  Qed.

  (** * Find *)

  Definition well_formed (ascending : bool) (idx : index V) : Prop :=
    ascending = true -> ascending_nonnull idx.

  Lemma find_spec asc idx v (Hwf : well_formed asc idx) :
    let r := find c asc idx (Some v) in
    (r = length idx \/ contains idx r v) /\ (forall p, (p < r)%nat -> ~ contains idx p v).
  Proof.
    unfold find. destruct asc.
    - apply binary_search_spec. apply Hwf. reflexivity.
    - pose proof (linear_search_spec idx v) as H. cbv zeta in H. destruct H as (Hr & Hc & Hn).
      cbv zeta. split; [|exact Hn].
      destruct (Nat.eq_dec (linear_search c idx (Some v)) (length idx)) as [E|E];
        [left; exact E|right; apply Hc; lia].
  Qed.

  Lemma find_never_misses asc idx v p :
    well_formed asc idx -> contains idx p v -> (find c asc idx (Some v) <= p)%nat.
  Proof.
    intros Hwf Hc. destruct (find_spec asc idx v Hwf) as [_ Hn].
    destruct (Nat.le_gt_cases (find c asc idx (Some v)) p) as [H|H]; [exact H|].
    exfalso. exact (Hn p H Hc).
  Qed.

  Lemma find_result_contains asc idx v :
    well_formed asc idx -> (find c asc idx (Some v) < length idx)%nat ->
    contains idx (find c asc idx (Some v)) v.
  Proof.
    intros Hwf Hlt. destruct (find_spec asc idx v Hwf) as [[H|H] _]; [lia|exact H].
  Qed.

  Lemma find_n_only_if_absent asc idx v :
    well_formed asc idx -> find c asc idx (Some v) = length idx ->
    forall p, ~ contains idx p v.
  Proof.
    intros Hwf Hr p Hc. destruct (find_spec asc idx v Hwf) as [_ Hn].
    apply (Hn p); [|exact Hc]. rewrite Hr. eapply contains_lt_length; eauto.
  Qed.

  Lemma find_le_length asc idx v :
    well_formed asc idx -> (find c asc idx (Some v) <= length idx)%nat.
  Proof.
    intros Hwf. destruct (find_spec asc idx v Hwf) as [[H|H] _]; [lia|].
    apply contains_lt_length in H. lia.
  Qed.
End Proofs.

(** The two wrappers of compare.go satisfy the comparator hypotheses. *)
Lemma nulls_last_nonnull V (cmp : V -> V -> Z) a b :
  cmp_nulls_last cmp (Some a) (Some b) = cmp a b.
Proof. reflexivity. Qed.
Lemma nulls_first_nonnull V (cmp : V -> V -> Z) a b :
  cmp_nulls_first cmp (Some a) (Some b) = cmp a b.
Proof. reflexivity. Qed.
Lemma nulls_last_excl V (cmp : V -> V -> Z) (v : V) :
  ~ (cmp_nulls_last cmp None (Some v) <= 0 /\ cmp_nulls_last cmp (Some v) None <= 0).
Proof. cbn. lia. Qed.
Lemma nulls_first_excl V (cmp : V -> V -> Z) (v : V) :
  ~ (cmp_nulls_first cmp None (Some v) <= 0 /\ cmp_nulls_first cmp (Some v) None <= 0).
Proof. cbn. lia. Qed.

(** Instances: integers and byte strings are total preorders. *)
Lemma cmpZ_opp a b : cmpZ a b < 0 <-> cmpZ b a > 0.
Proof.
  unfold cmpZ. rewrite (Z.compare_antisym a b).
  destruct (Z.compare a b); cbn; lia.
Qed.
Lemma cmpZ_le a b : cmpZ a b <= 0 <-> a <= b.
Proof.
  unfold cmpZ. destruct (Z.compare_spec a b); lia.
Qed.
Lemma cmpZ_trans a b d : cmpZ a b <= 0 -> cmpZ b d <= 0 -> cmpZ a d <= 0.
Proof. rewrite !cmpZ_le. lia. Qed.

Lemma cmp_bytes_opp a : forall b, cmp_bytes a b < 0 <-> cmp_bytes b a > 0.
Proof.
  induction a as [|x a IH]; intros [|y b]; cbn; try lia.
  rewrite (N.compare_antisym x y).
  destruct (N.compare x y); cbn; try lia. apply IH.
Qed.

Lemma cmp_bytes_trans a : forall b d,
  cmp_bytes a b <= 0 -> cmp_bytes b d <= 0 -> cmp_bytes a d <= 0.
Proof.
  induction a as [|x a IH]; intros [|y b] [|z d]; cbn; try lia.
  destruct (N.compare_spec x y) as [Hxy|Hxy|Hxy]; try lia;
  destruct (N.compare_spec y z) as [Hyz|Hyz|Hyz]; try lia; intros H1 H2.
  - subst. rewrite N.compare_refl. eapply IH; eauto.
  - subst. destruct (N.compare_spec y z); try lia.
  - subst. destruct (N.compare_spec x z); try lia.
  - destruct (N.compare_spec x z); try lia.
Qed.
