(** Find against the column index of a MultiRowGroup column chunk never misses
    a page: the flag computed by isOrdered is true of the concatenated pages
    (Stats/MultiProofs.v) whenever the claims of the chunks' own indexes are,
    so the theorems about Find (Search/Proofs.v) apply to the concatenation. *)
From Coq Require Import List ZArith Bool Arith Lia.
From PQ Require Import Search.Model Search.Proofs Stats.Multi Stats.MultiProofs Search.MultiFind.
Import ListNotations.
Open Scope Z_scope.

Section MultiFindProofs.
  Variable V : Type.
  Variable cmp : V -> V -> Z.
  Hypothesis cmp_opp : forall a b, cmp a b < 0 <-> cmp b a > 0.
  Hypothesis cmp_trans : forall a b d, cmp a b <= 0 -> cmp b d <= 0 -> cmp a d <= 0.
  Variable c : val V -> val V -> Z.
  Hypothesis c_nonnull : forall a b, c (Some a) (Some b) = cmp a b.
  Hypothesis c_null_excl : forall v, ~ (c None (Some v) <= 0 /\ c (Some v) None <= 0).

  (* the bounds of a non-null page are ordered: min <= max *)
  Definition bounds_ok (p : page V) : Prop :=
    match p with Some (mn, mx) => cmp mn mx <= 0 | None => True end.

  (* what is asked of a chunk: its index claims Ascending only when that is
     true of its non-null pages, and the bounds of its pages are ordered *)
  Definition chunk_ok (ch : bool * index V) : Prop :=
    (fst ch = true -> ascending_nonnull V cmp (snd ch)) /\ Forall bounds_ok (snd ch).

  Lemma bounds_ok_page_ok p : bounds_ok p -> page_ok V cmp (fun _ => false) p.
  Proof. destruct p as [[mn mx]|]; cbn; auto. Qed.

  Lemma multi_well_formed chunks :
    Forall chunk_ok chunks ->
    well_formed V cmp (multi_ascending cmp chunks) (multi_pages (map snd chunks)).
  Proof.
    intros Hok Hasc. unfold multi_ascending in Hasc.
    assert (Hp : Forall (Forall (page_ok V cmp (fun _ => false))) (map snd chunks)).
    { clear Hasc. induction Hok as [|ch rest Hch _ IH]; cbn [map]; [constructor|].
      constructor; [|exact IH]. destruct Hch as [_ Hb].
      eapply Forall_impl; [|exact Hb]. exact bounds_ok_page_ok. }
    assert (Hc : Forall2 (fun (claim : bool) idx => claim = true -> ascending_nonnull V cmp idx)
                         (map fst chunks) (map snd chunks)).
    { clear Hasc Hp. induction Hok as [|ch rest Hch _ IH]; cbn [map]; [constructor|].
      constructor; [exact (proj1 Hch)|exact IH]. }
    refine (multi_ascending_true V cmp (fun _ => false) cmp_opp _ _ _ Hp Hc Hasc).
    intros a b d _. apply cmp_trans.
  Qed.

  Lemma multi_find_never_misses chunks v p :
    Forall chunk_ok chunks -> contains V cmp (multi_pages (map snd chunks)) p v ->
    (multi_find cmp c chunks (Some v) <= p)%nat.
  Proof.
    intros Hok Hc. unfold multi_find.
    exact (find_never_misses V cmp cmp_opp cmp_trans c c_nonnull c_null_excl _ _ v p
             (multi_well_formed chunks Hok) Hc).
  Qed.

  Lemma multi_find_result_contains chunks v :
    Forall chunk_ok chunks ->
    (multi_find cmp c chunks (Some v) < length (multi_pages (map snd chunks)))%nat ->
    contains V cmp (multi_pages (map snd chunks)) (multi_find cmp c chunks (Some v)) v.
  Proof.
    intros Hok. unfold multi_find.
    exact (find_result_contains V cmp cmp_opp cmp_trans c c_nonnull c_null_excl _ _ v
             (multi_well_formed chunks Hok)).
  Qed.
End MultiFindProofs.
