(** Proofs about CopyPath/Splice.v: after loadCopiedChunk and the splice of
    writeRowGroup, every page location written for a copied column designates,
    in the output, exactly the bytes the source location designates in the
    source file — for every column of the row group, whatever precedes it. *)
From Coq Require Import List ZArith Bool Lia.
From PQ Require Import CopyPath.Splice.
Import ListNotations.
Local Open Scope Z_scope.

Section Proofs.
  Variable B : Type.

  Lemma skipn_skipn' (l : list B) : forall a b, skipn a (skipn b l) = skipn (b + a) l.
  Proof.
    intros a b. revert l. induction b as [|b IH]; intros l; [reflexivity|].
    destruct l; cbn; [now rewrite skipn_nil|apply IH].
  Qed.

  Lemma slice_length off len (f : list B) :
    0 <= off -> 0 <= len -> off + len <= Z.of_nat (length f) -> length (slice off len f) = Z.to_nat len.
  Proof.
    intros. unfold slice. rewrite firstn_length, skipn_length. lia.
  Qed.

  (* a range inside [a] is not affected by what follows *)
  Lemma slice_app_l off len (a b : list B) :
    0 <= off -> 0 <= len -> off + len <= Z.of_nat (length a) ->
    slice off len (a ++ b) = slice off len a.
  Proof.
    intros Ho Hl Hb. unfold slice. rewrite skipn_app, firstn_app.
    rewrite skipn_length.
    replace (Z.to_nat len - (length a - Z.to_nat off))%nat with 0%nat by lia.
    cbn. now rewrite app_nil_r.
  Qed.

  (* a range past [a] is a range of what follows *)
  Lemma slice_app_r off len (a b : list B) :
    0 <= off -> slice (Z.of_nat (length a) + off) len (a ++ b) = slice off len b.
  Proof.
    intros Ho. unfold slice. rewrite skipn_app.
    replace (Z.to_nat (Z.of_nat (length a) + off)) with (length a + Z.to_nat off)%nat by lia.
    rewrite (skipn_all2 a) by lia. cbn [app].
    now replace (length a + Z.to_nat off - length a)%nat with (Z.to_nat off) by lia.
  Qed.

  (* a range of a range *)
  Lemma slice_slice o1 l1 o2 l2 (f : list B) :
    0 <= o1 -> 0 <= l1 -> 0 <= o2 -> o1 + l1 <= l2 ->
    slice o1 l1 (slice o2 l2 f) = slice (o2 + o1) l1 f.
  Proof.
    intros H1 H2 H3 H4. unfold slice.
    rewrite skipn_firstn_comm, firstn_firstn, skipn_skipn'.
    replace (Nat.min (Z.to_nat l1) (Z.to_nat l2 - Z.to_nat o1)) with (Z.to_nat l1) by lia.
    now replace (Z.to_nat o2 + Z.to_nat o1)%nat with (Z.to_nat (o2 + o1)) by lia.
  Qed.

  (** The source chunk is laid out as the format prescribes: the dictionary
      page, if any, directly precedes the data pages; TotalCompressedSize spans
      both; the page locations lie inside the data pages; the file holds the
      whole chunk. *)
  Definition data_length (m : src_chunk) : Z :=
    if Z.eqb (sc_dict_offset m) 0 then sc_total_compressed m
    else sc_total_compressed m - (sc_data_offset m - sc_dict_offset m).

  Definition valid_layout (src : list B) (m : src_chunk) : Prop :=
    0 <= sc_dict_offset m /\ 0 <= sc_data_offset m /\
    (sc_dict_offset m <> 0 -> sc_dict_offset m <= sc_data_offset m) /\
    0 <= data_length m /\
    sc_data_offset m + data_length m <= Z.of_nat (length src) /\
    Forall (fun l => sc_data_offset m <= pl_offset l /\ 0 <= pl_size l /\
                     pl_offset l + pl_size l <= sc_data_offset m + data_length m) (sc_locs m).

  (** What is claimed of a copied column in an output file [out]. *)
  Definition placed_ok (src : list B) (m : src_chunk) (out : list B) (p : placed) : Prop :=
    let delta := p_data_page_offset p - sc_data_offset m in
    (* the offset index is the source's, shifted *)
    p_locs p = map (rebase delta) (sc_locs m) /\
    (* every location designates the bytes of the same page *)
    Forall (fun l => pl_offset l + delta + pl_size l <= Z.of_nat (length out) /\
                     slice (pl_offset l + delta) (pl_size l) out = slice (pl_offset l) (pl_size l) src)
           (sc_locs m) /\
    (* the dictionary page, when there is one, is where the metadata says, directly before the data pages *)
    (sc_dict_offset m <> 0 -> sc_dict_offset m < sc_data_offset m ->
       p_dict_page_offset p + (sc_data_offset m - sc_dict_offset m) = p_data_page_offset p /\
       slice (p_dict_page_offset p) (sc_data_offset m - sc_dict_offset m) out
       = slice (sc_dict_offset m) (sc_data_offset m - sc_dict_offset m) src).

  Lemma map_rebase_rebase d1 d2 (ls : list page_loc) :
    map (rebase d2) (map (rebase d1) ls) = map (rebase (d1 + d2)) ls.
  Proof.
    rewrite map_map. apply map_ext. intros [o s r]. unfold rebase; cbn. f_equal. lia.
  Qed.

  Lemma load_copied_chunk_valid src m :
    valid_layout src m ->
    exists cc, load_copied_chunk m = Some cc /\
      cc_data_offset cc = sc_data_offset m /\ cc_data_length cc = data_length m /\
      cc_locs cc = map (rebase (- sc_data_offset m)) (sc_locs m) /\
      cc_dict_offset cc = sc_dict_offset m /\
      cc_dict_length cc = (if Z.eqb (sc_dict_offset m) 0 then 0 else sc_data_offset m - sc_dict_offset m).
  Proof.
    intros (H1 & H2 & H3 & H4 & H5 & H6). unfold load_copied_chunk, data_length in *.
    destruct (Z.eqb (sc_dict_offset m) 0) eqn:E.
    - apply Z.eqb_eq in E. eexists. split; [reflexivity|]. cbn. repeat split; auto.
    - apply Z.eqb_neq in E. specialize (H3 E).
      replace (Z.ltb (sc_data_offset m - sc_dict_offset m) 0) with false by (symmetry; apply Z.ltb_ge; lia).
      replace (Z.ltb (sc_total_compressed m) (sc_data_offset m - sc_dict_offset m)) with false
        by (symmetry; apply Z.ltb_ge; lia).
      cbn. eexists. split; [reflexivity|]. cbn. repeat split; auto.
  Qed.

  (** One column. *)
  Lemma splice_chunk_sound src m cc out :
    valid_layout src m -> load_copied_chunk m = Some cc ->
    let '(out', p) := splice_chunk src out cc in
    (exists ext, out' = out ++ ext) /\ placed_ok src m out' p.
  Proof.
    intros Hv Hl. destruct (load_copied_chunk_valid src m Hv) as (cc' & Hl' & C1 & C2 & C3 & C4 & C5).
    rewrite Hl in Hl'. inversion Hl'; subst cc'. clear Hl'.
    destruct Hv as (H1 & H2 & H3 & H4 & H5 & H6).
    unfold splice_chunk. rewrite C1, C2, C3, C4, C5.
    set (dl := if Z.eqb (sc_dict_offset m) 0 then 0 else sc_data_offset m - sc_dict_offset m) in *.
    assert (Hdl : 0 <= dl).
    { unfold dl. destruct (Z.eqb (sc_dict_offset m) 0) eqn:E; [lia|]. apply Z.eqb_neq in E. specialize (H3 E). lia. }
    set (out1 := if Z.ltb 0 dl then out ++ slice (sc_dict_offset m) dl src else out).
    assert (Hdictin : sc_dict_offset m + dl <= Z.of_nat (length src)).
    { unfold dl, data_length in *. destruct (Z.eqb (sc_dict_offset m) 0) eqn:E; [apply Z.eqb_eq in E; lia|].
      apply Z.eqb_neq in E. specialize (H3 E). lia. }
    assert (Hlen1 : Z.of_nat (length out1) = Z.of_nat (length out) + dl).
    { unfold out1. destruct (Z.ltb 0 dl) eqn:E.
      - apply Z.ltb_lt in E. rewrite app_length, slice_length by lia. lia.
      - apply Z.ltb_ge in E. lia. }
    set (dpo := Z.of_nat (length out1)) in *.
    set (out2 := if Z.ltb 0 (data_length m) then out1 ++ slice (sc_data_offset m) (data_length m) src else out1).
    assert (Hext1 : exists e1, out1 = out ++ e1).
    { unfold out1. destruct (Z.ltb 0 dl); [eexists; reflexivity|exists []; now rewrite app_nil_r]. }
    assert (Hext2 : exists e2, out2 = out1 ++ e2).
    { unfold out2. destruct (Z.ltb 0 (data_length m)); [eexists; reflexivity|exists []; now rewrite app_nil_r]. }
    split.
    { destruct Hext1 as [e1 ->]. destruct Hext2 as [e2 ->]. exists (e1 ++ e2). now rewrite app_assoc. }
    unfold placed_ok. cbn [p_locs p_data_page_offset p_dict_page_offset].
    split; [|split].
    - rewrite map_rebase_rebase. f_equal. f_equal. lia.
    - rewrite Forall_forall in H6 |- *. intros l Hin. destruct (H6 l Hin) as (L1 & L2 & L3).
      assert (Hd : 0 < data_length m \/ (pl_size l = 0 /\ pl_offset l = sc_data_offset m)) by lia.
      destruct Hd as [Hd|[Hd Hd']].
      + unfold out2. replace (Z.ltb 0 (data_length m)) with true by (symmetry; now apply Z.ltb_lt).
        split.
        * rewrite app_length, slice_length by lia. lia.
        * replace (pl_offset l + (dpo - sc_data_offset m)) with (Z.of_nat (length out1) + (pl_offset l - sc_data_offset m))
            by (unfold dpo; lia).
          rewrite slice_app_r by lia.
          rewrite slice_slice by lia. f_equal. lia.
      + rewrite Hd. split.
        * destruct Hext2 as [e2 ->]. rewrite app_length. lia.
        * unfold slice. reflexivity.
    - intros Hne Hlt.
      assert (Edl : dl = sc_data_offset m - sc_dict_offset m).
      { unfold dl. destruct (Z.eqb (sc_dict_offset m) 0) eqn:E; [apply Z.eqb_eq in E; congruence|reflexivity]. }
      rewrite <- Edl.
      replace (Z.ltb 0 dl) with true by (symmetry; apply Z.ltb_lt; lia).
      split; [unfold dpo; lia|].
      destruct Hext2 as [e2 ->].
      assert (Eout1 : out1 = out ++ slice (sc_dict_offset m) dl src).
      { unfold out1. now replace (Z.ltb 0 dl) with true by (symmetry; apply Z.ltb_lt; lia). }
      rewrite slice_app_l.
      + rewrite Eout1.
        replace (Z.of_nat (length out)) with (Z.of_nat (length out) + 0) at 1 by lia.
        rewrite slice_app_r by lia.
        unfold slice at 1. cbn [Z.to_nat skipn]. rewrite firstn_all2; [reflexivity|].
        rewrite slice_length by lia. lia.
      + lia.
      + lia.
      + lia.
  Qed.

  (* what holds of a column in an output still holds after more bytes are appended *)
  Lemma placed_ok_extend src m out p ext :
    Forall (fun l => 0 <= pl_size l /\ 0 <= pl_offset l + (p_data_page_offset p - sc_data_offset m)) (sc_locs m) ->
    0 <= p_dict_page_offset p -> p_data_page_offset p <= Z.of_nat (length out) ->
    placed_ok src m out p -> placed_ok src m (out ++ ext) p.
  Proof.
    intros Hpos Hd0 Hdp (P1 & P2 & P3). unfold placed_ok. split; [exact P1|]. split.
    - rewrite Forall_forall in *. intros l Hin. destruct (P2 l Hin) as [Q1 Q2].
      destruct (Hpos l Hin) as [Q3 Q4]. split.
      + rewrite app_length. lia.
      + rewrite slice_app_l by lia. exact Q2.
    - intros Hne Hlt. destruct (P3 Hne Hlt) as [Q1 Q2]. split; [exact Q1|].
      rewrite slice_app_l by lia. exact Q2.
  Qed.

  (** All the columns of a row group. *)
  Theorem splice_chunks_sound : forall (cols : list (list B * src_chunk)) (ccs : list (list B * copied)) out,
    Forall2 (fun sm sc => fst sc = fst sm /\ valid_layout (fst sm) (snd sm) /\
                          load_copied_chunk (snd sm) = Some (snd sc)) cols ccs ->
    let '(out', ps) := splice_chunks out ccs in
    (exists ext, out' = out ++ ext) /\
    Forall2 (fun sm p => placed_ok (fst sm) (snd sm) out' p) cols ps.
  Proof.
    induction cols as [|[src m] cols IH]; intros ccs out HF; inversion HF as [|? [src' cc] ? ccs' Hhd Htl]; subst.
    - cbn. split; [exists []; now rewrite app_nil_r|constructor].
    - cbn [fst snd] in Hhd. destruct Hhd as (-> & Hv & Hl).
      cbn [splice_chunks].
      pose proof (splice_chunk_sound src m cc out Hv Hl) as Hone.
      destruct (splice_chunk src out cc) as [out1 p] eqn:E1.
      destruct Hone as [[e1 He1] Hp].
      specialize (IH ccs' out1 Htl).
      destruct (splice_chunks out1 ccs') as [out2 ps] eqn:E2.
      destruct IH as [[e2 He2] Hps].
      split; [exists (e1 ++ e2); subst; now rewrite app_assoc|].
      constructor; [|exact Hps]. cbn [fst snd]. subst out2.
      (* the first column's claims survive the later appends *)
      assert (Hdpo : p_data_page_offset p <= Z.of_nat (length out1) /\ 0 <= p_dict_page_offset p).
      { unfold splice_chunk in E1. inversion E1; subst; cbn.
        destruct (Z.ltb 0 (cc_data_length cc)); [rewrite app_length|];
          destruct (Z.ltb 0 (cc_dict_length cc)); lia. }
      destruct Hdpo as [Hdpo Hd0].
      apply placed_ok_extend; auto.
      destruct (load_copied_chunk_valid src m Hv) as (cc' & Hl' & C1 & C2 & C3 & C4 & C5).
      destruct Hv as (H1 & H2 & H3 & H4 & H5 & H6).
      rewrite Forall_forall in H6 |- *. intros l Hin. destruct (H6 l Hin) as (L1 & L2 & L3).
      split; [exact L2|].
      assert (0 <= p_data_page_offset p).
      { unfold splice_chunk in E1. inversion E1; subst; cbn. lia. }
      lia.
  Qed.
End Proofs.

(** The oracle's shortcut [rebased_offsets] computes what [splice_chunk]
    records, when the source file holds the dictionary page. *)
Lemma rebased_offsets_spec (B : Type) (src out : list B) m cc :
  valid_layout B src m -> load_copied_chunk m = Some cc ->
  rebased_offsets m (Z.of_nat (length out)) =
  let p := snd (splice_chunk src out cc) in
  Some (p_dict_page_offset p, p_data_page_offset p, map pl_offset (p_locs p)).
Proof.
  intros Hv Hl. unfold rebased_offsets. rewrite Hl.
  destruct (load_copied_chunk_valid B src m Hv) as (cc' & Hl' & C1 & C2 & C3 & C4 & C5).
  rewrite Hl in Hl'. inversion Hl'; subst cc'. clear Hl'.
  destruct Hv as (H1 & H2 & H3 & H4 & H5 & H6).
  unfold splice_chunk. cbn [snd p_dict_page_offset p_data_page_offset p_locs].
  assert (Hlen : Z.ltb 0 (cc_dict_length cc) = true ->
                 Z.of_nat (length (out ++ slice (cc_dict_offset cc) (cc_dict_length cc) src))
                 = Z.of_nat (length out) + cc_dict_length cc).
  { intro E. apply Z.ltb_lt in E.
    assert (Q1 : 0 <= cc_dict_offset cc) by (rewrite C4; lia).
    assert (Q2 : cc_dict_offset cc + cc_dict_length cc <= Z.of_nat (length src)).
    { rewrite C4. rewrite C5 in E |- *. unfold data_length in *.
      destruct (Z.eqb (sc_dict_offset m) 0) eqn:E0; [lia|]. apply Z.eqb_neq in E0. specialize (H3 E0). lia. }
    rewrite app_length, slice_length by lia. lia. }
  destruct (Z.ltb 0 (cc_dict_length cc)) eqn:E.
  - rewrite (Hlen eq_refl). rewrite map_map. reflexivity.
  - rewrite map_map. reflexivity.
Qed.
