(** Sizing of the bloom filters ahead of a column-wise write of WriteRowGroup.

      writer.go:910            configureBloomFilters (one source row group:
                               column-wise re-encode, row path of a row group
                               whose rows are those of its column chunks)
      writer_reencode.go:179   configureBloomFiltersForSegments (several
                               segments packed into one output row group)
      writer.go:2237           flushFilterPages (column without dictionary: a
                               filter allocated ahead is kept, else the filter
                               is sized for the values of the chunk written)
      bloom.go:205             splitBlockFilter.Size, bloom/filter.go:35
                               NumSplitBlocksOf

    A source column chunk declares a number of values (ColumnChunk.NumValues)
    that is exact or only an upper bound (row-range view of a repeated column
    cut inside a page: rangeColumnChunk.exact, writer.go:944
    chunkNumValuesIsExact).  Executable; no proofs here. *)
From Coq Require Import List NArith Bool Arith.
Import ListNotations.

(** bloom/filter.go:35 NumSplitBlocksOf and bloom.go:205 Size (BlockSize = 32) *)
Definition filter_size (bits values : N) : N :=
  (32 * ((((values * bits) + 7) / 8 + 31) / 32))%N.

(** one source chunk of the column being written: is its declared count exact,
    the declared count, the number of values it delivers when read *)
Record seg_chunk := {
  sg_exact : bool;      (* chunkNumValuesIsExact(chunk) *)
  sg_declared : N;      (* chunk.NumValues() *)
  sg_delivered : N      (* values read from the chunk by copyColumnValues *)
}.

Fixpoint sum_declared (l : list seg_chunk) : N :=
  match l with
  | [] => 0%N
  | c :: t => (sg_declared c + sum_declared t)%N
  end.

Fixpoint sum_delivered (l : list seg_chunk) : N :=
  match l with
  | [] => 0%N
  | c :: t => (sg_delivered c + sum_delivered t)%N
  end.

(** writer_reencode.go:179-194: [Some n] = resizeBloomFilter(n) before the
    first value is written; [None] = the filter is left to flushFilterPages *)
Definition pack_filter_values (chunks : list seg_chunk) : option N :=
  if forallb sg_exact chunks then Some (sum_declared chunks) else None.

(** writer.go:910-940 for one column *)
Definition rowgroup_filter_values (repeated : bool) (rows max_rows : N) (c : seg_chunk) : option N :=
  if negb (sg_exact c) then None                                   (* :920 *)
  else if N.ltb max_rows rows then                                 (* :924 *)
    if repeated then None                                          (* :927-933 *)
    else Some (N.min (sg_declared c) max_rows)                     (* :936 *)
  else Some (sg_declared c).                                       (* :938 *)

(** writer.go:2262-2286, column without dictionary: bytes of the filter of the
    chunk written, [written] = MetaData.NumValues of that chunk *)
Definition filter_bytes_at_flush (bits : N) (ahead : option N) (written : N) : N :=
  match ahead with
  | Some n => if N.eqb (filter_size bits n) 0 then filter_size bits written   (* len(c.filter) == 0 *)
              else filter_size bits n                                         (* :2262 *)
  | None => filter_size bits written                                          (* :2285 *)
  end.

Definition pack_filter_bytes (bits : N) (chunks : list seg_chunk) : N :=
  filter_bytes_at_flush bits (pack_filter_values chunks) (sum_delivered chunks).

Definition rowgroup_filter_bytes (bits : N) (repeated : bool) (rows max_rows : N) (c : seg_chunk) : N :=
  filter_bytes_at_flush bits (rowgroup_filter_values repeated rows max_rows c) (sg_delivered c).

(** a chunk whose declared count is exact delivers that many values *)
Definition chunk_honest (c : seg_chunk) : Prop :=
  sg_exact c = true -> sg_declared c = sg_delivered c.
