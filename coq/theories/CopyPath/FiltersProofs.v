(** Proofs about CopyPath/Filters.v: the bloom filter of a row group written
    column-wise has the size the configuration prescribes for the values of
    the row group, whatever mix of exact and inexact source chunks it is
    packed from. *)
From Coq Require Import List NArith Bool Arith Lia ZifyN ZifyNat ZifyBool.
From PQ Require Import CopyPath.Filters.
Import ListNotations.

Lemma all_exact_sums : forall chunks,
  Forall chunk_honest chunks -> forallb sg_exact chunks = true ->
  sum_declared chunks = sum_delivered chunks.
Proof.
  induction chunks as [| c t IH]; simpl; intros HF HA; [reflexivity |].
  apply andb_true_iff in HA; destruct HA as [Hc Ht].
  inversion HF; subst.
  rewrite (IH H2 Ht), (H1 Hc); reflexivity.
Qed.

(** packing: exact or not, the filter is sized for the values written *)
Theorem pack_filter_prescribed : forall bits chunks,
  Forall chunk_honest chunks ->
  pack_filter_bytes bits chunks = filter_size bits (sum_delivered chunks).
Proof.
  intros bits chunks HF; unfold pack_filter_bytes, pack_filter_values, filter_bytes_at_flush.
  destruct (forallb sg_exact chunks) eqn:E; [| reflexivity].
  rewrite (all_exact_sums _ HF E).
  destruct (N.eqb (filter_size bits (sum_delivered chunks)) 0); reflexivity.
Qed.

(** one row group within MaxRowsPerRowGroup: the same *)
Theorem rowgroup_filter_prescribed : forall bits repeated rows max_rows c,
  chunk_honest c -> (rows <= max_rows)%N ->
  rowgroup_filter_bytes bits repeated rows max_rows c = filter_size bits (sg_delivered c).
Proof.
  intros bits repeated rows max_rows c Hc Hr.
  unfold rowgroup_filter_bytes, rowgroup_filter_values, filter_bytes_at_flush.
  destruct (sg_exact c) eqn:E; simpl; [| reflexivity].
  assert (N.ltb max_rows rows = false) as -> by (apply N.ltb_ge; assumption).
  rewrite (Hc E).
  destruct (N.eqb (filter_size bits (sg_delivered c)) 0); reflexivity.
Qed.

(** the size grows with the number of values: a filter sized for part of the
    values is never larger than the prescribed one *)
Lemma filter_size_mono : forall bits a b, (a <= b)%N -> (filter_size bits a <= filter_size bits b)%N.
Proof.
  intros bits a b H; unfold filter_size.
  apply N.mul_le_mono_l.
  apply N.div_le_mono; [lia |].
  apply N.add_le_mono_r.
  apply N.div_le_mono; [lia |].
  apply N.add_le_mono_r.
  apply N.mul_le_mono_r; assumption.
Qed.
