(** Proofs about CopyPath/Groups.v: the rows buffered in the writer when
    WriteRowGroup is called share no row group with the rows of the call. *)
From Coq Require Import List NArith Bool Arith Lia ZifyN ZifyNat ZifyBool.
From PQ Require Import CopyPath.Decision CopyPath.Groups.
Import ListNotations.

Lemma sum_N_app : forall a b, sum_N (a ++ b) = (sum_N a + sum_N b)%N.
Proof. induction a; simpl; intros; [reflexivity | rewrite IHa; lia]. Qed.

Lemma sum_N_repeat : forall x n, sum_N (repeat x n) = (x * N.of_nat n)%N.
Proof. induction n; simpl; [lia | rewrite IHn; lia]. Qed.

Lemma cons_nonempty_app : forall r l, cons_nonempty r l = cons_nonempty r [] ++ l.
Proof. intros; unfold cons_nonempty; destruct (N.eqb r 0); reflexivity. Qed.

Lemma sum_cons_nonempty : forall r l, sum_N (cons_nonempty r l) = (r + sum_N l)%N.
Proof.
  intros; unfold cons_nonempty; destruct (N.eqb r 0) eqn:E; simpl; [apply N.eqb_eq in E; lia | reflexivity].
Qed.

(** what went through WriteRows is what the full row groups and the buffer hold *)
Lemma written_split : forall w written,
  (sum_N (full_groups w written) + buffered_rows w written)%N = written.
Proof.
  intros; unfold full_groups, buffered_rows.
  destruct (N.eqb (w_max_rows w) 0) eqn:E; simpl; [lia |].
  apply N.eqb_neq in E.
  rewrite sum_N_repeat, N2Nat.id.
  pose proof (N.div_mod written (w_max_rows w) E); lia.
Qed.

(** The output row groups end after the rows written before the call: a prefix
    of the row groups holds exactly those rows, the rest is one row group per
    non-empty action, each holding exactly the rows of the action. *)
Theorem buffered_rows_not_shared : forall w written acts l,
  out_row_groups w written acts = Some l ->
  exists pre post, l = pre ++ post /\ sum_N pre = written /\ action_row_groups acts = Some post.
Proof.
  intros w written acts l H; unfold out_row_groups in H.
  destruct (action_row_groups acts) as [la |] eqn:E; [| discriminate].
  inversion H; subst; clear H.
  exists (full_groups w written ++ cons_nonempty (buffered_rows w written) []), la.
  split; [rewrite (cons_nonempty_app _ la), app_assoc; reflexivity |].
  split; [| reflexivity].
  rewrite sum_N_app, sum_cons_nonempty; simpl.
  pose proof (written_split w written); lia.
Qed.

(** no row is lost or added *)
Theorem out_row_groups_sum : forall w written acts l,
  out_row_groups w written acts = Some l ->
  exists la, action_row_groups acts = Some la /\ sum_N l = (written + sum_N la)%N.
Proof.
  intros w written acts l H.
  destruct (buffered_rows_not_shared _ _ _ _ H) as (pre & post & -> & Hs & Hp).
  exists post; split; [assumption | rewrite sum_N_app; lia].
Qed.

(** the row groups of the rows written before the call respect MaxRowsPerRowGroup *)
Theorem buffered_groups_within_max : forall w written,
  (0 < w_max_rows w)%N ->
  Forall (fun g => (g <= w_max_rows w)%N) (full_groups w written ++ cons_nonempty (buffered_rows w written) []).
Proof.
  intros w written Hm; apply Forall_app; split.
  - unfold full_groups. destruct (N.eqb (w_max_rows w) 0); [constructor |].
    apply Forall_forall; intros x Hx; apply repeat_spec in Hx; lia.
  - unfold cons_nonempty, buffered_rows.
    destruct (N.eqb (w_max_rows w) 0) eqn:E; [apply N.eqb_eq in E; lia |].
    pose proof (N.mod_lt written (w_max_rows w)).
    destruct (N.eqb (written mod w_max_rows w) 0); [constructor | constructor; [lia | constructor]].
Qed.

(** a packing action is a row group of its own even when rows are buffered *)
Example ex_pack_after_buffered :
  out_row_groups {| w_schema_set := true; w_encryption := false; w_max_rows := 1000; w_ncols := 2 |} 600
                 [APack 2 800] = Some [600; 800]%N.
Proof. vm_compute; reflexivity. Qed.

Example ex_written_beyond_max :
  out_row_groups {| w_schema_set := true; w_encryption := false; w_max_rows := 1000; w_ncols := 2 |} 2300
                 [ACopy 2 400; AReencode 0; APack 3 900] = Some [1000; 1000; 300; 400; 900]%N.
Proof. vm_compute; reflexivity. Qed.
