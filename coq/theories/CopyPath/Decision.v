(** Model of the decision cascade of Writer.WriteRowGroup (writer.go:549-597):
    which of the four write paths a source row group takes.

      verbatim copy of the column chunks   writer_copy.go  copyableColumnChunks
      column-wise re-encode                writer_reencode.go reencodableRowGroup
      packed segments                      writer_copy.go  splittableCopyableSegments
                                           writer_reencode.go writeSegmentsPacked
      row path                             writer.go:589-603 (Rows() + CopyRows)

    Every condition the Go code reads is one field of a record of source /
    destination attributes ([col] per column, [rg] per row group, [writer],
    [switches]); the Go line of each condition is cited where it is evaluated.
    The cascade itself ([decide_abs]) runs on the outcome of the conditions (a
    finite record of booleans and a small enumeration), so that its rules can
    be checked over the whole space by computation (CopyPath/DecisionProofs.v).
    Executable; no proofs here. *)
From Coq Require Import List NArith Bool Arith.
Import ListNotations.

(** * Attributes *)

(** The dynamic type of the source row group.  Only three library types carry
    the unexported marker method chunkTransparentRowGroup(); a type defined
    outside the package cannot (writer_copy.go:148-155). *)
Inductive kind :=
| KFile                              (* *FileRowGroup: file.go:796 has the marker *)
| KBuffer                            (* *Buffer / *GenericBuffer[T]: buffer.go:463, buffer.go:149 *)
| KRange                             (* *rowRangeRowGroup: row_range.go:69 *)
| KMulti                             (* *multiRowGroup: multi_row_group.go:132 rowGroupSegments = its row groups; no marker *)
| KMerged                            (* *mergedRowGroup: merge.go:332 rowGroupSegments = nil; no marker *)
| KSortedSegments (drop_dup : bool)  (* *sortedSegmentRowGroup: merge.go:368 segments unless duplicates are dropped *)
| KConverted                         (* *convertedRowGroup (convert.go:991): no marker, no segments *)
| KDedup                             (* *dedupRowGroup (merge.go:402): embeds the RowGroup interface, so neither the
                                        marker nor rowGroupSegments of the wrapped value is promoted *)
| KEmpty                             (* *emptyRowGroup *)
| KForeign.                          (* any implementation of parquet.RowGroup outside the package *)

(** The dynamic type of a source column chunk (writer_reencode.go:68-79). *)
Inductive chunk_class :=
| CFile                         (* *FileColumnChunk *)
| CBuf                          (* a ColumnBuffer *)
| CRange (base : chunk_class)   (* *rangeColumnChunk over base *)
| COther.                       (* multiColumnChunk, convertedColumnChunk, missingColumnChunk, foreign types *)

(** format.PageType *)
Inductive page_type := PTData | PTIndex | PTDict | PTDataV2.

Definition page_type_eqb (a b : page_type) : bool :=
  match a, b with
  | PTData, PTData | PTIndex, PTIndex | PTDict, PTDict | PTDataV2, PTDataV2 => true
  | _, _ => false
  end.

(** One source column chunk paired with the destination ColumnWriter of the
    same index.  Physical types, codecs and encodings are their thrift codes
    (format.Type, format.CompressionCodec, format.Encoding). *)
Record col := {
  c_class : chunk_class;
  c_src_encrypted : bool;          (* src.decryptionKey != nil *)
  c_dst_enc_key : bool;            (* dst.encKey != nil *)
  c_src_type : N;                  (* meta.Type *)
  c_dst_type : N;                  (* format.Type(dst.columnType.Kind()) *)
  c_src_codec : N;                 (* meta.Codec *)
  c_dst_codec : N;                 (* dst.compression.CompressionCodec() *)
  c_dst_filter : bool;             (* dst.columnFilter != nil *)
  c_src_bloom_offset : bool;       (* meta.BloomFilterOffset != 0 *)
  c_src_bloom_length : bool;       (* meta.BloomFilterLength > 0 *)
  c_dst_bloom_codec : option N;    (* dst.bloomFilterCompression (nil = None) *)
  c_src_bloom_header_ok : bool;    (* the thrift header of the source filter decodes *)
  c_src_bloom_split_block : bool;  (* header.Algorithm is SplitBlockAlgorithm *)
  c_src_bloom_xxhash : bool;       (* header.Hash is XxHash *)
  c_src_bloom_uncompressed : bool; (* header.Compression is BloomFilterUncompressed *)
  c_src_bloom_num_bytes : N;       (* header.NumBytes *)
  c_dst_filter_size : N;           (* dst.columnFilter.Size(meta.NumValues) *)
  c_dst_filter_size_dict : N;      (* dst.columnFilter.Size(NumValues of the source dictionary page header) *)
  c_src_column_index : bool;       (* src.chunk.ColumnIndexOffset != 0 *)
  c_src_offset_index : bool;       (* src.chunk.OffsetIndexOffset != 0 *)
  c_src_encoding_stats : list (page_type * N);   (* meta.EncodingStats: page type, encoding *)
  c_dst_page_type : page_type;     (* dst.header.page.Type: PTData (v1) or PTDataV2 *)
  c_dst_encoding : N;              (* dst.encoding.Encoding() *)
  c_dst_dict : bool;               (* dst.dictionary != nil *)
  c_dst_dict_max : N;              (* dst.dictionaryMaxBytes (0: no limit) *)
  c_src_dict_page : bool;          (* meta.DictionaryPageOffset != 0 and DataPageOffset - DictionaryPageOffset > 0 *)
  c_src_dict_header_ok : bool;     (* the thrift header of the source dictionary page decodes, Type is DictionaryPage,
                                      DictionaryPageHeader is set (dictionaryPageHeaderOf) *)
  c_src_dict_uncompressed : N;     (* header.UncompressedPageSize of the source dictionary page *)
  (* attributes the cascade does not read; kept to state what a copy does not compare *)
  c_src_page_header_stats : bool;  (* the source pages carry statistics in their headers *)
  c_dst_page_header_stats : bool   (* dst.writePageStats *)
}.

(** A source row group: dynamic type, Schema() != nil, EqualNodes(w.schema,
    Schema()), NumRows(), ColumnChunks() (paired with the destination columns)
    and, for the segmented types, the row groups it concatenates. *)
Inductive rg :=
| RG (k : kind) (schema_present schema_equal : bool) (rows : N) (cols : list col) (segs : list rg).

Definition rg_kind (r : rg) := let 'RG k _ _ _ _ _ := r in k.
Definition rg_schema_present (r : rg) := let 'RG _ p _ _ _ _ := r in p.
Definition rg_schema_equal (r : rg) := let 'RG _ _ e _ _ _ := r in e.
Definition rg_rows (r : rg) := let 'RG _ _ _ n _ _ := r in n.
Definition rg_cols (r : rg) := let 'RG _ _ _ _ c _ := r in c.
Definition rg_segs (r : rg) := let 'RG _ _ _ _ _ s := r in s.

Record writer := {
  w_schema_set : bool;     (* w.schema != nil *)
  w_encryption : bool;     (* w.writer.encryption != nil *)
  w_max_rows : N;          (* w.writer.currentRowGroup.maxRows (MaxRowsPerRowGroup) *)
  w_ncols : nat            (* len(w.writer.currentRowGroup.columns) *)
}.

(** The package-level switches (writer_copy.go:20, writer_reencode.go:32). *)
Record switches := {
  sw_disable_copy : bool;      (* disableWriteCopy *)
  sw_disable_reencode : bool   (* disableWriteReencode *)
}.

(** * Conditions on one column *)

(* writer_copy.go:245-278 encodingStatsMatch, the loop over the source's
   page encoding statistics.  [None] is an early "return false"; [Some saw]
   carries sawDict. *)
Fixpoint stats_loop (want_pt : page_type) (want_enc : N) (want_dict : bool)
         (stats : list (page_type * N)) (saw_dict : bool) : option bool :=
  match stats with
  | [] => Some saw_dict
  | (pt, e) :: rest =>
    match pt with
    | PTDict =>                                        (* :257 *)
      if negb want_dict then None                      (* :259 *)
      else stats_loop want_pt want_enc want_dict rest true
    | PTData | PTDataV2 =>                             (* :262 *)
      if negb (page_type_eqb pt want_pt) then None     (* :263 data page version mismatch *)
      else if negb (N.eqb e want_enc) then None        (* :266 encoding mismatch *)
      else stats_loop want_pt want_enc want_dict rest saw_dict
    | PTIndex => None                                  (* :269 default *)
    end
  end.

Definition encoding_stats_match (c : col) : bool :=
  match c_src_encoding_stats c with
  | [] => false                                        (* :246 cannot verify the source encodings *)
  | stats =>
    match stats_loop (c_dst_page_type c) (c_dst_encoding c) (c_dst_dict c) stats false with
    | None => false
    | Some saw => Bool.eqb (c_dst_dict c) saw          (* :274 wantDict != sawDict *)
    end
  end.

(* writer_copy.go:293-318 bloomFilterIsCopyable *)
Definition bloom_filter_is_copyable (c : col) : bool :=
  if negb (c_src_bloom_offset c) || negb (c_src_bloom_length c) then false          (* :295 *)
  else if match c_dst_bloom_codec c with Some k => negb (N.eqb k 0) | None => false end
       then false                                                                   (* :298 *)
  else if negb (c_src_bloom_header_ok c) then false                                 (* :308 *)
  else if negb (c_src_bloom_split_block c) || negb (c_src_bloom_xxhash c) then false (* :311 *)
  else if negb (c_src_bloom_uncompressed c) then false                              (* :314 *)
  else if c_dst_dict c then
    (* repair cc7588b: the filter of a dictionary column is sized from the number of values of its
       dictionary (flushFilterPages); the source dictionary page header must be readable *)
    if negb (c_src_dict_page c) || negb (c_src_dict_header_ok c) then false
    else N.eqb (c_src_bloom_num_bytes c) (c_dst_filter_size_dict c)
  else N.eqb (c_src_bloom_num_bytes c) (c_dst_filter_size c).                       (* :317 *)

(* writer_copy.go columnChunkIsCopyable, last condition (repairs f873992, cc7588b:
   dictionaryPageHeaderOf): the dictionary page of the source declares an
   uncompressed size within the destination's DictionaryMaxBytes *)
Definition dictionary_fits_limit (c : col) : bool :=
  if negb (c_src_dict_page c) then false
  else if negb (c_src_dict_header_ok c) then false
  else N.leb (c_src_dict_uncompressed c) (c_dst_dict_max c).

(** The outcome of the conditions of columnChunkIsCopyable, as read by the
    cascade. *)
Record col_abs := {
  a_file : bool;          (* col is a *FileColumnChunk          writer_copy.go:136 *)
  a_src_encrypted : bool; (*                                     :204 *)
  a_dst_enc_key : bool;   (*                                     :209 *)
  a_type_eq : bool;       (* meta.Type == dst type               :216 *)
  a_codec_eq : bool;      (* meta.Codec == dst codec             :220 *)
  a_dst_filter : bool;    (* dst.columnFilter != nil             :226 *)
  a_bloom_ok : bool;      (* bloomFilterIsCopyable               :226 *)
  a_column_index : bool;  (* ColumnIndexOffset != 0              :231 *)
  a_offset_index : bool;  (* OffsetIndexOffset != 0              :231 *)
  a_stats_ok : bool;      (* encodingStatsMatch                  :236 *)
  a_dict_limit : bool;    (* dst.dictionary != nil && dst.dictionaryMaxBytes > 0   :247 *)
  a_dict_fits : bool      (* dictionaryFitsLimit                 :247 *)
}.

Definition col_abs_of (c : col) : col_abs := {|
  a_file := match c_class c with CFile => true | _ => false end;
  a_src_encrypted := c_src_encrypted c;
  a_dst_enc_key := c_dst_enc_key c;
  a_type_eq := N.eqb (c_src_type c) (c_dst_type c);
  a_codec_eq := N.eqb (c_src_codec c) (c_dst_codec c);
  a_dst_filter := c_dst_filter c;
  a_bloom_ok := bloom_filter_is_copyable c;
  a_column_index := c_src_column_index c;
  a_offset_index := c_src_offset_index c;
  a_stats_ok := encoding_stats_match c;
  a_dict_limit := c_dst_dict c && N.ltb 0 (c_dst_dict_max c);
  a_dict_fits := dictionary_fits_limit c
|}.

(* writer_copy.go:135-144 (type assertion) and :202-240 columnChunkIsCopyable *)
Definition column_copyable_abs (a : col_abs) : bool :=
  if negb (a_file a) then false                                   (* :137 *)
  else if a_src_encrypted a then false                            (* :204 *)
  else if a_dst_enc_key a then false                              (* :209 *)
  else if negb (a_type_eq a) then false                           (* :216 *)
  else if negb (a_codec_eq a) then false                          (* :220 *)
  else if a_dst_filter a && negb (a_bloom_ok a) then false        (* :226 *)
  else if negb (a_column_index a) || negb (a_offset_index a) then false   (* :231 *)
  else if negb (a_stats_ok a) then false                          (* :236 *)
  else if a_dict_limit a && negb (a_dict_fits a) then false       (* :247 the source dictionary must fit the limit *)
  else true.

Definition column_copyable (c : col) : bool := column_copyable_abs (col_abs_of c).

(* writer_reencode.go:68-79 columnOrientedChunk *)
Fixpoint column_oriented_chunk (c : chunk_class) : bool :=
  match c with
  | CFile => true
  | CBuf => true
  | CRange base => column_oriented_chunk base
  | COther => false
  end.

(** * Conditions on a row group *)

(* writer_copy.go:180-183 chunkTransparentRowGroup: the marker method *)
Definition chunk_transparent (k : kind) : bool :=
  match k with
  | KFile | KBuffer | KRange => true
  | _ => false
  end.

(* the result of rowGroup.(orderedRowGroupSegments) and rowGroupSegments();
   [None]: the type does not implement the interface *)
Definition segments_of (r : rg) : option (list rg) :=
  match rg_kind r with
  | KMulti => Some (rg_segs r)                 (* multi_row_group.go:132 *)
  | KSortedSegments false => Some (rg_segs r)  (* merge.go:372 *)
  | KSortedSegments true => Some []            (* merge.go:369-371 returns nil when dropping duplicates *)
  | KMerged => Some []                         (* merge.go:332 returns nil *)
  | _ => None
  end.

(* the row-group-level conditions of copyableColumnChunks (writer_copy.go:106-146),
   without the switch *)
Definition copy_conditions (w : writer) (r : rg) : bool :=
  negb (w_encryption w)                                    (* :113 *)
  && N.leb (rg_rows r) (w_max_rows w)                      (* :119 *)
  && chunk_transparent (rg_kind r)                         (* :124 *)
  && Nat.eqb (length (rg_cols r)) (w_ncols w)              (* :130 *)
  && forallb column_copyable (rg_cols r).                  (* :135-144 *)

Definition copyable_column_chunks (sw : switches) (w : writer) (r : rg) : bool :=
  negb (sw_disable_copy sw) && copy_conditions w r.        (* :107 *)

(* writer_reencode.go:45-63 columnOrientedRowGroup *)
Definition column_oriented_row_group (w : writer) (r : rg) : bool :=
  chunk_transparent (rg_kind r)                                      (* :46 *)
  && negb (Nat.eqb (length (rg_cols r)) 0)                           (* :51 *)
  && Nat.eqb (length (rg_cols r)) (w_ncols w)                        (* :51 *)
  && forallb (fun c => column_oriented_chunk (c_class c)) (rg_cols r) (* :54-58 *)
  && N.leb (rg_rows r) (w_max_rows w).                               (* :59 *)

(* writer_reencode.go:83-88 reencodableRowGroup *)
Definition reencodable_row_group (sw : switches) (w : writer) (r : rg) : bool :=
  negb (sw_disable_reencode sw) && column_oriented_row_group w r.

(* writer_copy.go:79-100 splittableCopyableSegments *)
Definition splittable (sw : switches) (w : writer) (r : rg) : bool :=
  if sw_disable_copy sw && sw_disable_reencode sw then false          (* :80 *)
  else match segments_of r with
       | None => false                                                (* :84 *)
       | Some segs =>
         if Nat.leb (length segs) 1 then false                        (* :88 *)
         else existsb (fun s => copyable_column_chunks sw w s         (* :92 *)
                                || reencodable_row_group sw w s) segs (* :95 *)
       end.

(** * The cascade *)

Inductive path :=
| PReject     (* ErrRowGroupSchemaMissing / ErrRowGroupSchemaMismatch *)
| PPacked     (* writeSegmentsPacked *)
| PCopy       (* loadCopiedChunks: verbatim copy of every column chunk *)
| PReencode   (* writeRowGroupByColumn *)
| PRows.      (* CopyRows(w.writer, rowGroup.Rows()) *)

(** The outcome of every condition WriteRowGroup evaluates. *)
Record rg_abs := {
  g_schema_present : bool;  (* rowGroup.Schema() != nil                     writer.go:552 *)
  g_writer_schema : bool;   (* w.schema != nil                              writer.go:554 *)
  g_schema_equal : bool;    (* EqualNodes(w.schema, rowGroupSchema)         writer.go:556 *)
  g_splittable : bool;      (* splittableCopyableSegments                   writer.go:564 *)
  g_copyable : bool;        (* copyableColumnChunks                         writer.go:573 *)
  g_reencodable : bool      (* reencodableRowGroup                          writer.go:582 *)
}.

Definition decide_abs (g : rg_abs) : path :=
  if negb (g_schema_present g) then PReject                               (* writer.go:552 *)
  else if g_writer_schema g && negb (g_schema_equal g) then PReject       (* writer.go:556 *)
  else if g_splittable g then PPacked                                     (* writer.go:564 *)
  else if g_copyable g then PCopy                                         (* writer.go:573 *)
  else if g_reencodable g then PReencode                                  (* writer.go:582 *)
  else PRows.                                                             (* writer.go:589 *)

Definition rg_abs_of (sw : switches) (w : writer) (r : rg) : rg_abs := {|
  g_schema_present := rg_schema_present r;
  g_writer_schema := w_schema_set w;
  g_schema_equal := rg_schema_equal r;
  g_splittable := splittable sw w r;
  g_copyable := copyable_column_chunks sw w r;
  g_reencodable := reencodable_row_group sw w r
|}.

Definition decide (sw : switches) (w : writer) (r : rg) : path :=
  decide_abs (rg_abs_of sw w r).

(** * Packing of segments (writer_reencode.go:98-150 writeSegmentsPacked)

    The loop keeps a batch [pending] of consecutive column-oriented segments
    whose rows fit MaxRowsPerRowGroup.  The result lists the batches in the
    order they are flushed; a segment that is not column-oriented is a batch
    of its own.  A batch of one segment goes back through WriteRowGroup
    (:116, :140), a larger one through packSegmentsByColumn (:118). *)
Fixpoint sum_rows (l : list rg) : N :=
  match l with
  | [] => 0%N
  | r :: t => (rg_rows r + sum_rows t)%N
  end.

Definition flush_pending (pending : list rg) : list (list rg) :=
  match pending with
  | [] => []                (* :113 *)
  | _ => [pending]
  end.

Fixpoint pack_loop (w : writer) (segs pending : list rg) (pending_rows : N) : list (list rg) :=
  match segs with
  | [] => flush_pending pending                                              (* :146 *)
  | seg :: rest =>
    if column_oriented_row_group w seg then                                  (* :127 *)
      if N.ltb 0 pending_rows && N.ltb (w_max_rows w) (pending_rows + rg_rows seg) then   (* :128 *)
        flush_pending pending ++ pack_loop w rest [seg] (rg_rows seg)        (* :129-134 *)
      else
        pack_loop w rest (pending ++ [seg]) (pending_rows + rg_rows seg)     (* :133-134 *)
    else
      flush_pending pending ++ [seg] :: pack_loop w rest [] 0%N              (* :137-140 *)
  end.

Definition pack_segments (w : writer) (segs : list rg) : list (list rg) :=
  pack_loop w segs [] 0%N.

(** * What a call of WriteRowGroup does, as a list of elementary writes *)

Inductive action :=
| ACopy (ncols : nat) (rows : N)     (* copyPathCounter += ncols (writer_copy.go:391, once per column) *)
| AReencode (rows : N)               (* reencodePathCounter += 1 (writer_reencode.go:204) *)
| APack (nsegs : nat) (rows : N)     (* reencodePathCounter += 1 (writer_reencode.go:168) *)
| ARows (rows : N)
| AReject.

(* [fuel] bounds the nesting depth of segmented row groups *)
Fixpoint plan (fuel : nat) (sw : switches) (w : writer) (r : rg) : list action :=
  match fuel with
  | 0 => []
  | S fuel' =>
    match decide sw w r with
    | PReject => [AReject]
    | PPacked =>
      flat_map (fun batch =>
                  match batch with
                  | [s] => plan fuel' sw w s
                  | _ => [APack (length batch) (sum_rows batch)]
                  end)
               (pack_segments w (match segments_of r with Some s => s | None => [] end))
    | PCopy => [ACopy (length (rg_cols r)) (rg_rows r)]
    | PReencode => [AReencode (rg_rows r)]
    | PRows => [ARows (rg_rows r)]
    end
  end.

Fixpoint copy_count (l : list action) : nat :=
  match l with
  | [] => 0
  | ACopy n _ :: t => n + copy_count t
  | _ :: t => copy_count t
  end.

Fixpoint reencode_count (l : list action) : nat :=
  match l with
  | [] => 0
  | AReencode _ :: t => S (reencode_count t)
  | APack _ _ :: t => S (reencode_count t)
  | _ :: t => reencode_count t
  end.

(** * The cascade over a finite record of conditions

    The same decision, as a function of the dynamic type, the switches and the
    outcome of each row-group-level condition.  The space of [rg_cond] is
    finite (11 dynamic types x 2^14 booleans = 180 224 vectors): the rules of
    the cascade are checked on all of it in CopyPath/DecisionProofs.v, where
    [decide] is shown to be [decide_cond] of [cond_of]. *)
Record rg_cond := {
  q_kind : kind;
  q_disable_copy : bool;          (* disableWriteCopy *)
  q_disable_reencode : bool;      (* disableWriteReencode *)
  q_schema_present : bool;        (* writer.go:552 *)
  q_writer_schema : bool;         (* writer.go:554 *)
  q_schema_equal : bool;          (* writer.go:556 *)
  q_w_encryption : bool;          (* writer_copy.go:113 *)
  q_rows_le_max : bool;           (* writer_copy.go:119, writer_reencode.go:59 *)
  q_ncols_eq : bool;              (* writer_copy.go:130, writer_reencode.go:51 *)
  q_ncols_zero : bool;            (* writer_reencode.go:51 *)
  q_all_cols_copyable : bool;     (* writer_copy.go:135-144 *)
  q_all_cols_oriented : bool;     (* writer_reencode.go:54-58 *)
  q_segs_gt1 : bool;              (* writer_copy.go:88 *)
  q_some_seg_copyable : bool;     (* writer_copy.go:92 *)
  q_some_seg_reencodable : bool   (* writer_copy.go:95 *)
}.

(* the type implements orderedRowGroupSegments and returns its segments *)
Definition segmented_kind (k : kind) : bool :=
  match k with
  | KMulti | KSortedSegments false => true
  | _ => false
  end.

Definition copyable_q (q : rg_cond) : bool :=
  negb (q_disable_copy q) && negb (q_w_encryption q) && q_rows_le_max q
  && chunk_transparent (q_kind q) && q_ncols_eq q && q_all_cols_copyable q.

Definition oriented_q (q : rg_cond) : bool :=
  chunk_transparent (q_kind q) && negb (q_ncols_zero q) && q_ncols_eq q
  && q_all_cols_oriented q && q_rows_le_max q.

Definition reencodable_q (q : rg_cond) : bool :=
  negb (q_disable_reencode q) && oriented_q q.

Definition splittable_q (q : rg_cond) : bool :=
  negb (q_disable_copy q && q_disable_reencode q) && segmented_kind (q_kind q)
  && q_segs_gt1 q && (q_some_seg_copyable q || q_some_seg_reencodable q).

Definition decide_cond (q : rg_cond) : path :=
  decide_abs {| g_schema_present := q_schema_present q;
                g_writer_schema := q_writer_schema q;
                g_schema_equal := q_schema_equal q;
                g_splittable := splittable_q q;
                g_copyable := copyable_q q;
                g_reencodable := reencodable_q q |}.

Definition cond_of (sw : switches) (w : writer) (r : rg) : rg_cond := {|
  q_kind := rg_kind r;
  q_disable_copy := sw_disable_copy sw;
  q_disable_reencode := sw_disable_reencode sw;
  q_schema_present := rg_schema_present r;
  q_writer_schema := w_schema_set w;
  q_schema_equal := rg_schema_equal r;
  q_w_encryption := w_encryption w;
  q_rows_le_max := N.leb (rg_rows r) (w_max_rows w);
  q_ncols_eq := Nat.eqb (length (rg_cols r)) (w_ncols w);
  q_ncols_zero := Nat.eqb (length (rg_cols r)) 0;
  q_all_cols_copyable := forallb column_copyable (rg_cols r);
  q_all_cols_oriented := forallb (fun c => column_oriented_chunk (c_class c)) (rg_cols r);
  q_segs_gt1 := negb (Nat.leb (length (rg_segs r)) 1);
  q_some_seg_copyable := existsb (copyable_column_chunks sw w) (rg_segs r);
  q_some_seg_reencodable := existsb (reencodable_row_group sw w) (rg_segs r)
|}.

Definition all_kinds : list kind :=
  [KFile; KBuffer; KRange; KMulti; KMerged; KSortedSegments false; KSortedSegments true;
   KConverted; KDedup; KEmpty; KForeign].
