(** Model of the byte-range splice of the verbatim copy path:
    ColumnWriter.loadCopiedChunk (writer_copy.go:325-401) records the byte
    ranges of the dictionary page and of the data pages of a source column
    chunk and makes the page locations of its offset index relative to the
    start of the data pages; writer.writeRowGroup (writer.go:1556-1583) streams
    the ranges to the output and makes the locations absolute again, at the
    offset the data pages land at.

    A file is a list of bytes (of any type); offsets and sizes are Go int64
    values, here Z.  Executable; no proofs here. *)
From Coq Require Import List ZArith Bool.
Import ListNotations.
Local Open Scope Z_scope.

(** format.PageLocation *)
Record page_loc := { pl_offset : Z; pl_size : Z; pl_first_row : Z }.

(** What loadCopiedChunk reads of the source chunk: the column metadata
    offsets and the page locations of its offset index. *)
Record src_chunk := {
  sc_dict_offset : Z;        (* meta.DictionaryPageOffset (0 = none) *)
  sc_data_offset : Z;        (* meta.DataPageOffset *)
  sc_total_compressed : Z;   (* meta.TotalCompressedSize *)
  sc_locs : list page_loc    (* oi.PageLocations *)
}.

(** copiedChunk (writer_copy.go:42-59), the fields that position bytes. *)
Record copied := {
  cc_dict_offset : Z; cc_dict_length : Z;
  cc_data_offset : Z; cc_data_length : Z;
  cc_locs : list page_loc     (* c.offsetIndex.PageLocations, relative to the data pages *)
}.

Definition rebase (delta : Z) (l : page_loc) : page_loc :=
  {| pl_offset := pl_offset l + delta; pl_size := pl_size l; pl_first_row := pl_first_row l |}.

(* writer_copy.go:325-401; [None] is the "invalid source column chunk layout" error *)
Definition load_copied_chunk (m : src_chunk) : option copied :=
  let data_offset := sc_data_offset m in                                    (* :330 *)
  let locs := map (rebase (- sc_data_offset m)) (sc_locs m) in              (* :358-361 loc.Offset -= meta.DataPageOffset *)
  if Z.eqb (sc_dict_offset m) 0 then                                        (* :333 *)
    Some {| cc_dict_offset := 0; cc_dict_length := 0;
            cc_data_offset := data_offset; cc_data_length := sc_total_compressed m;   (* :331 *)
            cc_locs := locs |}
  else
    let dict_length := sc_data_offset m - sc_dict_offset m in               (* :335 *)
    if Z.ltb dict_length 0 || Z.ltb (sc_total_compressed m) dict_length then None    (* :336 *)
    else Some {| cc_dict_offset := sc_dict_offset m; cc_dict_length := dict_length;
                 cc_data_offset := data_offset;
                 cc_data_length := sc_total_compressed m - dict_length;     (* :340 *)
                 cc_locs := locs |}.

Section Bytes.
  Variable B : Type.

  (** io.NewSectionReader(file, off, len) read to its end: the bytes
      [off, off+len) of the file, fewer when the file is shorter. *)
  Definition slice (off len : Z) (f : list B) : list B :=
    firstn (Z.to_nat len) (skipn (Z.to_nat off) f).

  (** What writeRowGroup records for a copied column. *)
  Record placed := {
    p_dict_page_offset : Z;     (* columnChunk.MetaData.DictionaryPageOffset (0 = none) *)
    p_data_page_offset : Z;     (* columnChunk.MetaData.DataPageOffset *)
    p_locs : list page_loc      (* the offset index written for the column *)
  }.

  (* writer.go:1557-1583, one copied column; [out] is everything written so
     far, so that w.writer.offset = length out *)
  Definition splice_chunk (src out : list B) (cc : copied) : list B * placed :=
    let dict_off := if Z.ltb 0 (cc_dict_length cc) then Z.of_nat (length out) else 0 in     (* :1565-1566 *)
    let out1 := if Z.ltb 0 (cc_dict_length cc)
                then out ++ slice (cc_dict_offset cc) (cc_dict_length cc) src               (* :1567 *)
                else out in
    let data_page_offset := Z.of_nat (length out1) in                                       (* :1572 *)
    let locs := map (rebase data_page_offset) (cc_locs cc) in                               (* :1574-1576 *)
    let out2 := if Z.ltb 0 (cc_data_length cc)
                then out1 ++ slice (cc_data_offset cc) (cc_data_length cc) src              (* :1578 *)
                else out1 in
    (out2, {| p_dict_page_offset := dict_off; p_data_page_offset := data_page_offset; p_locs := locs |}).

  (** All the columns of a row group, in order (the loop of writer.go:1556):
      each column comes with its own source file. *)
  Fixpoint splice_chunks (out : list B) (cols : list (list B * copied)) : list B * list placed :=
    match cols with
    | [] => (out, [])
    | (src, cc) :: rest =>
      let '(out1, p) := splice_chunk src out cc in
      let '(out2, ps) := splice_chunks out1 rest in
      (out2, p :: ps)
    end.
End Bytes.

Arguments slice {B}.
Arguments splice_chunk {B}.
Arguments splice_chunks {B}.

(** The oracle's entry point: the offsets of the page locations written for a
    column copied from [m] when [out_offset] bytes precede it in the output;
    [None] when loadCopiedChunk rejects the layout. *)
Definition rebased_offsets (m : src_chunk) (out_offset : Z) : option (Z * Z * list Z) :=
  match load_copied_chunk m with
  | None => None
  | Some cc =>
    let dict_off := if Z.ltb 0 (cc_dict_length cc) then out_offset else 0 in
    let dpo := if Z.ltb 0 (cc_dict_length cc) then out_offset + cc_dict_length cc else out_offset in
    Some (dict_off, dpo, map (fun l => pl_offset (rebase dpo l)) (cc_locs cc))
  end.
