(** Proofs about CopyPath/Batches.v: every batch copyColumnValues hands to
    WriteRowValues consists of whole rows, for every value stream, every
    reader behaviour and every buffer size; the pages the destination builds
    from such batches start at row starts; the loop terminates on a reader
    that serves pages. *)
From Coq Require Import List Arith Bool Lia.
From PQ Require Import CopyPath.Batches.
Import ListNotations.

Section Proofs.
  Variable A : Type.
  Variable rep : A -> nat.

  (** A batch (or page) of whole rows begins with the first value of a row. *)
  Definition starts_row (b : list A) : Prop :=
    match b with [] => False | x :: _ => rep x = 0 end.

  (** A well-formed column stream begins at a row start. *)
  Definition wf_stream (s : list A) : Prop :=
    match s with [] => True | x :: _ => rep x = 0 end.

  Lemma wf_stream_app_nonempty a b : a <> [] -> wf_stream (a ++ b) -> starts_row a.
  Proof. destruct a; [congruence|]. cbn. auto. Qed.

  Lemma scan_back_le buf : forall e, scan_back rep buf e <= e.
  Proof.
    induction e as [|e IH]; cbn; [lia|].
    destruct (nth_error buf e) as [x|]; [destruct (rep x =? 0)|]; lia.
  Qed.

  (* a positive result designates a value at repetition level 0 *)
  Lemma scan_back_pos buf : forall e, 0 < scan_back rep buf e ->
    exists x, nth_error buf (scan_back rep buf e) = Some x /\ rep x = 0.
  Proof.
    induction e as [|e IH]; cbn; [lia|].
    destruct (nth_error buf e) as [x|] eqn:E.
    - destruct (rep x =? 0) eqn:Ex.
      + intros _. exists x. split; [exact E|]. now apply Nat.eqb_eq.
      + exact IH.
    - exact IH.
  Qed.

  Lemma skipn_nth_error (l : list A) : forall i x, nth_error l i = Some x ->
    exists t, skipn i l = x :: t.
  Proof.
    induction l as [|y l IH]; intros [|i] x H; cbn in *; try discriminate.
    - inversion H. now exists l.
    - now apply IH.
  Qed.

  Lemma Forall_skipn (P : A -> Prop) (l : list A) n : Forall P l -> Forall P (skipn n l).
  Proof.
    revert l. induction n as [|n IH]; intros l H; [exact H|].
    destruct l; [constructor|]. cbn. apply IH. now inversion H.
  Qed.

  Lemma firstn_pos_head (l : list A) e : 0 < e -> l <> [] ->
    exists x t t', l = x :: t /\ firstn e l = x :: t'.
  Proof.
    intros He Hl. destruct l as [|x t]; [congruence|]. destruct e; [lia|].
    exists x, t, (firstn e t). split; reflexivity.
  Qed.

  Section AnyReader.
    Variable R : Type.
    Variable read : R -> nat -> nat * bool * R.

    (** Partial correctness, for any reader: whatever the sizes of the reads
        and however the end of the stream is signalled. *)
    Lemma copy_loop_sound : forall fuel repeated rd cap pend rest bs,
      (repeated = false -> Forall (fun x => rep x = 0) (pend ++ rest)) ->
      wf_stream (pend ++ rest) ->
      copy_loop rep read fuel repeated rd cap pend rest = Some bs ->
      concat bs = pend ++ rest /\ Forall starts_row bs.
    Proof.
      induction fuel as [|fuel IH]; intros repeated rd cap pend rest bs Hnr Hwf H; [discriminate|].
      cbn [copy_loop] in H.
      set (cap1 := if length pend =? cap then cap + cap else cap) in *.
      set (room := cap1 - length pend) in *.
      destruct (read rd room) as [[k eager] rd'].
      set (n := Nat.min (Nat.min k room) (length rest)) in *.
      set (rest' := skipn n rest) in *.
      set (buf := pend ++ firstn n rest) in *.
      assert (Hsplit : buf ++ rest' = pend ++ rest).
      { unfold buf, rest'. now rewrite <- app_assoc, firstn_skipn. }
      set (eof := match rest with
                  | [] => true
                  | _ :: _ => eager && match rest' with [] => true | _ :: _ => false end
                  end) in *.
      set (e := if repeated && negb eof then scan_back rep buf (length buf) else length buf) in *.
      assert (He : e <= length buf).
      { unfold e. destruct (repeated && negb eof); [apply scan_back_le|lia]. }
      assert (Hout : firstn e buf ++ skipn e buf = buf) by apply firstn_skipn.
      destruct eof eqn:Eeof.
      - (* the reader reported the end: everything is written *)
        assert (Hr' : rest' = []).
        { unfold eof in Eeof. destruct rest as [|a rest0]; [unfold rest'; now rewrite skipn_nil|].
          apply andb_true_iff in Eeof. destruct Eeof as [_ E2]. now destruct rest'. }
        assert (Ee : e = length buf).
        { unfold e. now rewrite andb_false_r. }
        rewrite Hr', app_nil_r in Hsplit.
        rewrite Ee, firstn_all in H.
        destruct (0 <? length buf) eqn:Epos; inversion H; subst bs; cbn.
        + rewrite app_nil_r. split; [exact Hsplit|].
          constructor; [|constructor].
          apply Nat.ltb_lt in Epos. rewrite <- Hsplit in Hwf.
          destruct buf; [cbn in Epos; lia|exact Hwf].
        + apply Nat.ltb_ge in Epos. destruct buf; [|cbn in Epos; lia].
          split; [exact Hsplit|constructor].
      - (* not the end: the last row stays in the buffer *)
        destruct (copy_loop rep read fuel repeated rd' cap1 (skipn e buf) rest') as [bs'|] eqn:Erec;
          [|discriminate].
        assert (Hsplit2 : firstn e buf ++ (skipn e buf ++ rest') = pend ++ rest).
        { now rewrite app_assoc, Hout. }
        apply IH in Erec.
        + destruct Erec as [Hc Hs].
          assert (Hcat : concat (firstn e buf :: bs') = pend ++ rest).
          { cbn. now rewrite Hc. }
          destruct (0 <? e) eqn:Epos; inversion H; subst bs.
          * split; [exact Hcat|]. constructor; [|exact Hs].
            apply Nat.ltb_lt in Epos.
            assert (Hb : buf <> []) by (destruct buf; [cbn in He; lia|congruence]).
            destruct (firstn_pos_head buf e Epos Hb) as (x & t & t' & E1 & E2).
            rewrite E2. cbn. rewrite <- Hsplit, E1 in Hwf. exact Hwf.
          * apply Nat.ltb_ge in Epos. assert (e = 0) by lia.
            split; [|exact Hs]. rewrite <- Hcat. cbn. now replace e with 0.
        + intros Hf. specialize (Hnr Hf). rewrite <- Hsplit2 in Hnr.
          apply Forall_app in Hnr. tauto.
        + destruct repeated.
          * (* the scan found the start of the last row, or nothing *)
            cbn [andb negb] in e.
            destruct (Nat.eq_dec e 0) as [E0|E0].
            -- rewrite E0. cbn [skipn]. now rewrite Hsplit.
            -- assert (Hp : 0 < scan_back rep buf (length buf)) by (unfold e in E0; lia).
               destruct (scan_back_pos buf (length buf) Hp) as (x & Hx & Hx0).
               destruct (skipn_nth_error buf _ x Hx) as [t Ht].
               unfold e. rewrite Ht. exact Hx0.
          * assert (Ee : e = length buf) by reflexivity.
            rewrite Ee, skipn_all. cbn [app].
            specialize (Hnr eq_refl). rewrite <- Hsplit in Hnr. apply Forall_app in Hnr.
            destruct Hnr as [_ Hnr]. destruct rest'; [exact I|]. now inversion Hnr.
    Qed.
  End AnyReader.

  (** * The destination: pages *)
  Variable should_flush : list A -> bool.

  Lemma write_row_values_sound : forall bs buffered,
    Forall starts_row bs -> (buffered = [] \/ starts_row buffered) ->
    concat (write_row_values should_flush buffered bs) = buffered ++ concat bs /\
    Forall starts_row (write_row_values should_flush buffered bs).
  Proof.
    induction bs as [|b bs IH]; intros buffered Hbs Hbuf; cbn [write_row_values].
    - destruct buffered as [|x t]; cbn.
      + split; [reflexivity|constructor].
      + rewrite !app_nil_r. split; [reflexivity|].
        constructor; [|constructor]. destruct Hbuf as [Hbuf|Hbuf]; [discriminate|exact Hbuf].
    - inversion Hbs as [|? ? Hb Hbs']; subst.
      assert (Hnew : starts_row (buffered ++ b)).
      { destruct Hbuf as [->|Hbuf]; [exact Hb|]. destruct buffered; [contradiction|exact Hbuf]. }
      destruct (should_flush (buffered ++ b)).
      + destruct (IH [] Hbs' (or_introl eq_refl)) as [Hc Hs]. cbn [concat].
        rewrite Hc. cbn [app concat]. split; [now rewrite app_assoc|]. now constructor.
      + destruct (IH (buffered ++ b) Hbs' (or_intror Hnew)) as [Hc Hs].
        rewrite Hc. cbn [concat]. split; [now rewrite app_assoc|exact Hs].
  Qed.
End Proofs.

Arguments starts_row {A}.
Arguments wf_stream {A}.

(** * Termination on a reader that serves pages *)

Fixpoint sum_pages (l : list nat) : nat :=
  match l with [] => 0 | p :: t => p + sum_pages t end.

Lemma page_read_spec : forall pages room,
  let '(k, eager, pages') := page_read pages room in
  eager = false /\ k <= room /\ k + sum_pages pages' = sum_pages pages /\
  (0 < room -> 0 < sum_pages pages -> 0 < k).
Proof.
  induction pages as [|p ps IH]; intros room; cbn [page_read].
  - cbn. repeat split; lia.
  - destruct p as [|p].
    + specialize (IH room). destruct (page_read ps room) as [[k eager] pages']. cbn [sum_pages]. exact IH.
    + cbn [sum_pages]. repeat split; lia.
Qed.

Lemma copy_loop_pages_terminates (A : Type) (rep : A -> nat) :
  forall fuel repeated pages cap pend rest,
    0 < cap -> length pend <= cap -> sum_pages pages = length rest -> length rest < fuel ->
    copy_loop rep page_read fuel repeated pages cap pend rest <> None.
Proof.
  induction fuel as [|fuel IH]; intros repeated pages cap pend rest Hcap Hpend Hsum Hfuel; [lia|].
  cbn [copy_loop].
  set (cap1 := if length pend =? cap then cap + cap else cap).
  assert (Hcap1 : 0 < cap1 /\ length pend < cap1).
  { unfold cap1. destruct (length pend =? cap) eqn:E.
    - apply Nat.eqb_eq in E. lia.
    - apply Nat.eqb_neq in E. lia. }
  set (room := cap1 - length pend).
  pose proof (page_read_spec pages room) as Hrd.
  destruct (page_read pages room) as [[k eager] pages'].
  destruct Hrd as (-> & Hk & Hs & Hprog).
  set (n := Nat.min (Nat.min k room) (length rest)).
  assert (Hn : n = k) by (unfold n; lia).
  destruct rest as [|a rest0].
  - now destruct (0 <? _).
  - cbn [andb].
    set (rest := a :: rest0) in *.
    set (buf := pend ++ firstn n rest).
    set (e := if repeated && negb false then scan_back rep buf (length buf) else length buf).
    assert (Hk0 : 0 < k) by (apply Hprog; [unfold room; lia|rewrite Hsum; cbn; lia]).
    assert (Hlen' : length (skipn n rest) = length rest - k) by (rewrite skipn_length; lia).
    assert (Hrec : copy_loop rep page_read fuel repeated pages' cap1 (skipn e buf) (skipn n rest) <> None).
    { apply IH.
      - lia.
      - rewrite skipn_length. unfold buf. rewrite app_length, firstn_length. unfold room in Hk. lia.
      - rewrite Hlen'. lia.
      - rewrite Hlen'. cbn [length] in *. lia. }
    destruct (copy_loop rep page_read fuel repeated pages' cap1 (skipn e buf) (skipn n rest)); [|congruence].
    discriminate.
Qed.

(** * copyColumnValues on a column chunk *)

Theorem copy_column_values_whole_rows (A : Type) (rep : A -> nat) :
  forall repeated cap pages stream,
    0 < cap -> sum_pages pages = length stream ->
    (repeated = false -> Forall (fun x => rep x = 0) stream) ->
    wf_stream rep stream ->
    exists bs, copy_column_values rep repeated cap pages stream = Some bs /\
               concat bs = stream /\ Forall (starts_row rep) bs.
Proof.
  intros repeated cap pages stream Hcap Hsum Hnr Hwf. unfold copy_column_values.
  destruct (copy_loop rep page_read (S (S (length stream))) repeated pages cap [] stream) as [bs|] eqn:E.
  - exists bs. split; [reflexivity|].
    exact (copy_loop_sound A rep (list nat) page_read _ repeated pages cap [] stream bs Hnr Hwf E).
  - exfalso. revert E. apply copy_loop_pages_terminates; cbn; lia.
Qed.

(** Values written column-wise: the pages built from the batches, whatever
    the moments the destination flushes, hold the stream and start at rows. *)
Theorem reencode_pages (A : Type) (rep : A -> nat) (should_flush : list A -> bool) :
  forall repeated cap pages stream,
    0 < cap -> sum_pages pages = length stream ->
    (repeated = false -> Forall (fun x => rep x = 0) stream) ->
    wf_stream rep stream ->
    exists bs, copy_column_values rep repeated cap pages stream = Some bs /\
               concat (write_row_values should_flush [] bs) = stream /\
               Forall (starts_row rep) (write_row_values should_flush [] bs).
Proof.
  intros repeated cap pages stream Hcap Hsum Hnr Hwf.
  destruct (copy_column_values_whole_rows A rep repeated cap pages stream Hcap Hsum Hnr Hwf)
    as (bs & E & Hc & Hs).
  exists bs. split; [exact E|].
  destruct (write_row_values_sound A rep should_flush bs [] Hs (or_introl eq_refl)) as [Hc' Hs'].
  split; [now rewrite Hc'|exact Hs'].
Qed.
