(** Model of the column-wise value copy of the re-encode path
    (writer_reencode.go:214-259 copyColumnValues) and of its consumer
    ColumnWriter.WriteRowValues (writer.go:2360-2378).

    A column is a stream of values carrying repetition levels; a row starts
    at a value whose repetition level is 0.  copyColumnValues reads the stream
    in batches through a ColumnChunkValueReader and hands each batch to
    WriteRowValues, which may flush a data page after any call: a batch must
    therefore consist of whole rows.  Executable; no proofs here. *)
From Coq Require Import List Arith Bool ZArith.
From PQ Require Import Generated.Consts.
Import ListNotations.

Section CopyColumnValues.
  Variable A : Type.          (* a value with its levels *)
  Variable rep : A -> nat.    (* Value.repetitionLevel *)

  (** The value reader.  [read rd room] is one call ReadValues(buf[pending:])
      with [room] free slots: how many values the reader delivers (the model
      clips it to [room] and to what is left of the stream), whether it
      reports io.EOF together with the last values, and its next state. *)
  Variable R : Type.
  Variable read : R -> nat -> nat * bool * R.

  (* writer_reencode.go:235-240
       for end > 0 { end--; if buf[end].repetitionLevel == 0 { break } } *)
  Fixpoint scan_back (buf : list A) (e : nat) : nat :=
    match e with
    | 0 => 0
    | S e' =>
      match nth_error buf e' with
      | Some x => if Nat.eqb (rep x) 0 then e' else scan_back buf e'
      | None => scan_back buf e'
      end
    end.

  (** The loop of copyColumnValues.  [cap] is len(buf), [pend] the values
      carried over at the start of the buffer (pending = length pend), [rest]
      what the reader has not delivered yet.  The result lists the arguments
      of the successive calls of WriteRowValues; [None] when the fuel runs
      out. *)
  Fixpoint copy_loop (fuel : nat) (repeated : bool) (rd : R) (cap : nat) (pend rest : list A)
    : option (list (list A)) :=
    match fuel with
    | 0 => None
    | S fuel' =>
      let cap1 := if Nat.eqb (length pend) cap then cap + cap else cap in  (* :227-230 a row larger than the buffer *)
      let room := cap1 - length pend in
      let '(k, eager, rd') := read rd room in                              (* :231 *)
      let n := Nat.min (Nat.min k room) (length rest) in
      let rest' := skipn n rest in
      let eof := match rest with                                           (* err == io.EOF *)
                 | [] => true
                 | _ => eager && match rest' with [] => true | _ => false end
                 end in
      let buf := pend ++ firstn n rest in                                  (* :232 n += pending *)
      let e := if repeated && negb eof                                     (* :234 *)
               then scan_back buf (length buf)
               else length buf in                                          (* :233 end := n *)
      let out := firstn e buf in
      let pend' := skipn e buf in                                          (* :247 pending = copy(buf, buf[end:n]) *)
      if eof then Some (if Nat.ltb 0 e then [out] else [])                 (* :242-246, :252-254 *)
      else
        match copy_loop fuel' repeated rd' cap1 pend' rest' with
        | Some bs => Some (if Nat.ltb 0 e then out :: bs else bs)          (* :242-246 *)
        | None => None
        end
    end.

  (** The loop before commit bdd71f3: every batch read is written as it is.
        n, err := reader.ReadValues(buf); if n > 0 { dst.WriteRowValues(buf[:n]) } *)
  Fixpoint copy_loop_pinned (fuel : nat) (rd : R) (cap : nat) (rest : list A)
    : option (list (list A)) :=
    match fuel with
    | 0 => None
    | S fuel' =>
      let '(k, eager, rd') := read rd cap in
      let n := Nat.min (Nat.min k cap) (length rest) in
      let rest' := skipn n rest in
      let eof := match rest with
                 | [] => true
                 | _ => eager && match rest' with [] => true | _ => false end
                 end in
      let out := firstn n rest in
      if eof then Some (if Nat.ltb 0 n then [out] else [])
      else
        match copy_loop_pinned fuel' rd' cap rest' with
        | Some bs => Some (if Nat.ltb 0 n then out :: bs else bs)
        | None => None
        end
    end.

  (** ColumnWriter.WriteRowValues (writer.go:2360-2378) followed by the final
      Flush of writeRowGroup (writer.go:1537): the values of a call are
      appended to the column buffer, and the buffer becomes a data page when
      it is large enough (columnBuffer.Size() >= bufferSize, here any
      predicate of the buffered values) — after any call.  The result is the
      list of pages. *)
  Variable should_flush : list A -> bool.

  Fixpoint write_row_values (buffered : list A) (batches : list (list A)) : list (list A) :=
    match batches with
    | [] => match buffered with [] => [] | _ => [buffered] end
    | b :: bs =>
      let buf := buffered ++ b in
      if should_flush buf then buf :: write_row_values [] bs     (* writer.go:2374-2375 *)
      else write_row_values buf bs
    end.
End CopyColumnValues.

Arguments scan_back {A}.
Arguments copy_loop {A} rep {R}.
Arguments copy_loop_pinned {A R}.
Arguments write_row_values {A}.

(** * The reader of a column chunk

    columnChunkValueReader.ReadValues (column_chunk.go:123-160) serves the
    values of one page at a time: a call returns min(room, what is left of the
    current page) values and a nil error; io.EOF comes alone, once every page
    is exhausted.  The state is the number of values left in each page. *)
Fixpoint page_read (pages : list nat) (room : nat) : nat * bool * list nat :=
  match pages with
  | [] => (0, false, [])
  | 0 :: ps => page_read ps room
  | p :: ps => (Nat.min p room, false, (p - Nat.min p room) :: ps)
  end.

(* len(buf) at the start: reencodeValueBufferSize (writer_reencode.go:210) *)
Definition reencode_buffer_size : nat := Z.to_nat go_parquet_reencodeValueBufferSize.

(** copyColumnValues on a column chunk whose pages hold [pages] values:
    the batches handed to WriteRowValues.  [cap] = reencode_buffer_size in the
    library. *)
Definition copy_column_values {A} (rep : A -> nat) (repeated : bool) (cap : nat)
           (pages : list nat) (stream : list A) : option (list (list A)) :=
  copy_loop rep page_read (S (S (length stream))) repeated pages cap [] stream.

Definition copy_column_values_pinned {A} (cap : nat) (pages : list nat) (stream : list A)
  : option (list (list A)) :=
  copy_loop_pinned page_read (S (S (length stream))) pages cap stream.

(** The cut points: cumulated lengths of the batches. *)
Fixpoint cuts_from {A} (acc : nat) (bs : list (list A)) : list nat :=
  match bs with
  | [] => []
  | b :: t => (acc + length b) :: cuts_from (acc + length b) t
  end.

(* the oracle's entry points: the stream is its list of repetition levels *)
Definition batch_cuts (repeated : bool) (cap : nat) (pages : list nat) (reps : list nat) : option (list nat) :=
  match copy_column_values (fun r => r) repeated cap pages reps with
  | Some bs => Some (cuts_from 0 bs)
  | None => None
  end.

Definition batch_cuts_pinned (cap : nat) (pages : list nat) (reps : list nat) : option (list nat) :=
  match copy_column_values_pinned cap pages reps with
  | Some bs => Some (cuts_from 0 bs)
  | None => None
  end.
