(** Proofs about CopyPath/Decision.v.

    The rules of the cascade are boolean functions of the finite record
    [rg_cond] (and [col_abs] for one column); each is evaluated on the whole
    space by vm_compute and lifted to a universally quantified statement
    ([all_cond_spec], through forallb_forall).  The concrete decision [decide]
    is [decide_cond] of the conditions computed from the attributes
    ([decide_cond_of]).  The list-shaped parts (encoding statistics, packing of
    segments) are proved by induction, for lists of any length. *)
From Coq Require Import List NArith Bool Arith Lia ZifyN ZifyNat ZifyBool.
From PQ Require Import CopyPath.Decision.
Import ListNotations.

(** * Exhaustive evaluation *)

Definition allb (f : bool -> bool) : bool := f true && f false.

Lemma allb_spec f : allb f = true -> forall b, f b = true.
Proof. unfold allb. intros H b. apply andb_true_iff in H. destruct b; tauto. Qed.

Lemma all_kinds_complete : forall k, In k all_kinds.
Proof. intros [| | | | |[|]| | | |]; cbn; tauto. Qed.

(** Every vector of [rg_cond]: 11 x 2^14 = 180 224. *)
Definition all_cond (f : rg_cond -> bool) : bool :=
  forallb (fun k =>
    allb (fun b1 => allb (fun b2 => allb (fun b3 => allb (fun b4 => allb (fun b5 =>
    allb (fun b6 => allb (fun b7 => allb (fun b8 => allb (fun b9 => allb (fun b10 =>
    allb (fun b11 => allb (fun b12 => allb (fun b13 => allb (fun b14 =>
      f (Build_rg_cond k b1 b2 b3 b4 b5 b6 b7 b8 b9 b10 b11 b12 b13 b14)))))))))))))))) all_kinds.

Lemma all_cond_spec f : all_cond f = true -> forall q, f q = true.
Proof.
  intros H [k b1 b2 b3 b4 b5 b6 b7 b8 b9 b10 b11 b12 b13 b14].
  unfold all_cond in H. rewrite forallb_forall in H. specialize (H k (all_kinds_complete k)).
  apply allb_spec with (b := b1) in H. apply allb_spec with (b := b2) in H.
  apply allb_spec with (b := b3) in H. apply allb_spec with (b := b4) in H.
  apply allb_spec with (b := b5) in H. apply allb_spec with (b := b6) in H.
  apply allb_spec with (b := b7) in H. apply allb_spec with (b := b8) in H.
  apply allb_spec with (b := b9) in H. apply allb_spec with (b := b10) in H.
  apply allb_spec with (b := b11) in H. apply allb_spec with (b := b12) in H.
  apply allb_spec with (b := b13) in H. apply allb_spec with (b := b14) in H.
  exact H.
Qed.

(** Every vector of [col_abs]: 2^12 = 4 096. *)
Definition all_col (f : col_abs -> bool) : bool :=
  allb (fun b1 => allb (fun b2 => allb (fun b3 => allb (fun b4 => allb (fun b5 =>
  allb (fun b6 => allb (fun b7 => allb (fun b8 => allb (fun b9 => allb (fun b10 =>
  allb (fun b11 => allb (fun b12 =>
    f (Build_col_abs b1 b2 b3 b4 b5 b6 b7 b8 b9 b10 b11 b12))))))))))))).

Lemma all_col_spec f : all_col f = true -> forall a, f a = true.
Proof.
  intros H [b1 b2 b3 b4 b5 b6 b7 b8 b9 b10 b11 b12]. unfold all_col in H.
  apply allb_spec with (b := b1) in H. apply allb_spec with (b := b2) in H.
  apply allb_spec with (b := b3) in H. apply allb_spec with (b := b4) in H.
  apply allb_spec with (b := b5) in H. apply allb_spec with (b := b6) in H.
  apply allb_spec with (b := b7) in H. apply allb_spec with (b := b8) in H.
  apply allb_spec with (b := b9) in H. apply allb_spec with (b := b10) in H.
  apply allb_spec with (b := b11) in H. apply allb_spec with (b := b12) in H.
  exact H.
Qed.

Definition path_eqb (a b : path) : bool :=
  match a, b with
  | PReject, PReject | PPacked, PPacked | PCopy, PCopy | PReencode, PReencode | PRows, PRows => true
  | _, _ => false
  end.

Lemma path_eqb_eq a b : path_eqb a b = true <-> a = b.
Proof. destruct a, b; cbn; split; intro H; try reflexivity; discriminate. Qed.

(** * Rules of one column (columnChunkIsCopyable) *)

Definition col_rule (a : col_abs) : bool :=
  implb (column_copyable_abs a)
        (a_file a && negb (a_src_encrypted a) && negb (a_dst_enc_key a) && a_type_eq a && a_codec_eq a
         && implb (a_dst_filter a) (a_bloom_ok a) && a_column_index a && a_offset_index a && a_stats_ok a
         && implb (a_dict_limit a) (a_dict_fits a)).

Lemma col_rule_all : all_col col_rule = true.
Proof. vm_compute. reflexivity. Qed.

(* the converse: the conditions are exactly these *)
Definition col_rule_conv (a : col_abs) : bool :=
  implb (a_file a && negb (a_src_encrypted a) && negb (a_dst_enc_key a) && a_type_eq a && a_codec_eq a
         && implb (a_dst_filter a) (a_bloom_ok a) && a_column_index a && a_offset_index a && a_stats_ok a
         && implb (a_dict_limit a) (a_dict_fits a))
        (column_copyable_abs a).

Lemma col_rule_conv_all : all_col col_rule_conv = true.
Proof. vm_compute. reflexivity. Qed.

(** * Encoding statistics (any number of entries) *)

Definition is_dict (s : page_type * N) : bool :=
  match fst s with PTDict => true | _ => false end.

(* an entry the destination would have produced itself *)
Definition page_ok (want_pt : page_type) (want_enc : N) (want_dict : bool) (s : page_type * N) : Prop :=
  (fst s = PTDict /\ want_dict = true) \/
  (fst s <> PTDict /\ fst s = want_pt /\ snd s = want_enc).

Lemma page_type_eqb_eq a b : page_type_eqb a b = true -> a = b.
Proof. destruct a, b; cbn; intro H; try reflexivity; discriminate. Qed.

Lemma stats_loop_sound want_pt want_enc want_dict : forall stats saw saw',
  stats_loop want_pt want_enc want_dict stats saw = Some saw' ->
  Forall (page_ok want_pt want_enc want_dict) stats /\ saw' = saw || existsb is_dict stats.
Proof.
  induction stats as [|[pt e] stats IH]; intros saw saw' H; cbn [stats_loop] in H.
  - inversion H. split; [constructor|]. cbn. now rewrite orb_false_r.
  - destruct pt.
    + destruct (negb (page_type_eqb PTData want_pt)) eqn:E1; [discriminate|].
      destruct (negb (N.eqb e want_enc)) eqn:E2; [discriminate|].
      apply negb_false_iff in E1, E2. apply page_type_eqb_eq in E1. apply N.eqb_eq in E2.
      destruct (IH _ _ H) as [HF Hs]. split.
      * constructor; [|exact HF]. right. cbn. repeat split; [discriminate|exact E1|exact E2].
      * exact Hs.
    + discriminate.
    + destruct (negb want_dict) eqn:E1; [discriminate|]. apply negb_false_iff in E1.
      destruct (IH _ _ H) as [HF Hs]. split.
      * constructor; [|exact HF]. left. cbn. tauto.
      * rewrite Hs. cbn. now rewrite orb_true_r.
    + destruct (negb (page_type_eqb PTDataV2 want_pt)) eqn:E1; [discriminate|].
      destruct (negb (N.eqb e want_enc)) eqn:E2; [discriminate|].
      apply negb_false_iff in E1, E2. apply page_type_eqb_eq in E1. apply N.eqb_eq in E2.
      destruct (IH _ _ H) as [HF Hs]. split.
      * constructor; [|exact HF]. right. cbn. repeat split; [discriminate|exact E1|exact E2].
      * exact Hs.
Qed.

Lemma encoding_stats_match_sound (c : col) :
  encoding_stats_match c = true ->
  c_src_encoding_stats c <> [] /\
  Forall (page_ok (c_dst_page_type c) (c_dst_encoding c) (c_dst_dict c)) (c_src_encoding_stats c) /\
  c_dst_dict c = existsb is_dict (c_src_encoding_stats c).
Proof.
  unfold encoding_stats_match. destruct (c_src_encoding_stats c) as [|s stats] eqn:E; [discriminate|].
  destruct (stats_loop _ _ _ (s :: stats) false) as [saw|] eqn:EL; [|discriminate].
  intro H. apply eqb_prop in H. destruct (stats_loop_sound _ _ _ _ _ _ EL) as [HF Hs].
  split; [discriminate|]. split; [exact HF|]. rewrite H, Hs. reflexivity.
Qed.

(** * Bloom filter *)

Definition bloom_equivalent (c : col) : Prop :=
  c_src_bloom_offset c = true /\ c_src_bloom_length c = true /\
  (c_dst_bloom_codec c = None \/ c_dst_bloom_codec c = Some 0%N) /\
  c_src_bloom_header_ok c = true /\ c_src_bloom_split_block c = true /\ c_src_bloom_xxhash c = true /\
  c_src_bloom_uncompressed c = true /\
  (* the size the destination would build: from the dictionary for a dictionary column *)
  (c_dst_dict c = false -> c_src_bloom_num_bytes c = c_dst_filter_size c) /\
  (c_dst_dict c = true -> c_src_dict_page c = true /\ c_src_dict_header_ok c = true /\
                          c_src_bloom_num_bytes c = c_dst_filter_size_dict c).

Lemma bloom_filter_is_copyable_sound (c : col) :
  bloom_filter_is_copyable c = true -> bloom_equivalent c.
Proof.
  unfold bloom_filter_is_copyable, bloom_equivalent.
  destruct (c_src_bloom_offset c), (c_src_bloom_length c); cbn; try discriminate.
  destruct (c_dst_bloom_codec c) as [k|].
  - destruct (N.eqb k 0) eqn:Ek; cbn; [|discriminate]. apply N.eqb_eq in Ek. subst k.
    destruct (c_src_bloom_header_ok c), (c_src_bloom_split_block c), (c_src_bloom_xxhash c),
      (c_src_bloom_uncompressed c); cbn; try discriminate.
    destruct (c_dst_dict c); [destruct (c_src_dict_page c), (c_src_dict_header_ok c); cbn; try discriminate|];
      intro H; apply N.eqb_eq in H; repeat split; auto; discriminate.
  - destruct (c_src_bloom_header_ok c), (c_src_bloom_split_block c), (c_src_bloom_xxhash c),
      (c_src_bloom_uncompressed c); cbn; try discriminate.
    destruct (c_dst_dict c); [destruct (c_src_dict_page c), (c_src_dict_header_ok c); cbn; try discriminate|];
      intro H; apply N.eqb_eq in H; repeat split; auto; discriminate.
Qed.

(** * Dictionary size limit *)

Definition dictionary_fits (c : col) : Prop :=
  c_src_dict_page c = true /\ c_src_dict_header_ok c = true /\
  (c_src_dict_uncompressed c <= c_dst_dict_max c)%N.

Lemma dictionary_fits_limit_sound (c : col) :
  dictionary_fits_limit c = true -> dictionary_fits c.
Proof.
  unfold dictionary_fits_limit, dictionary_fits.
  destruct (c_src_dict_page c), (c_src_dict_header_ok c); cbn; try discriminate.
  intro H. apply N.leb_le in H. repeat split; auto.
Qed.

(** * One column: copyable implies every setting that shapes its bytes agrees *)

Definition column_settings_equal (c : col) : Prop :=
  c_class c = CFile /\
  c_src_encrypted c = false /\ c_dst_enc_key c = false /\
  c_src_type c = c_dst_type c /\
  c_src_codec c = c_dst_codec c /\
  (c_dst_filter c = true -> bloom_equivalent c) /\
  c_src_column_index c = true /\ c_src_offset_index c = true /\
  c_src_encoding_stats c <> [] /\
  Forall (page_ok (c_dst_page_type c) (c_dst_encoding c) (c_dst_dict c)) (c_src_encoding_stats c) /\
  c_dst_dict c = existsb is_dict (c_src_encoding_stats c) /\
  (c_dst_dict c = true -> (0 < c_dst_dict_max c)%N -> dictionary_fits c).

Lemma column_copyable_sound (c : col) : column_copyable c = true -> column_settings_equal c.
Proof.
  unfold column_copyable. intro H.
  pose proof (all_col_spec _ col_rule_all (col_abs_of c)) as R. unfold col_rule in R.
  rewrite H in R. cbn [implb] in R.
  repeat (apply andb_true_iff in R; destruct R as [R ?]).
  cbn [col_abs_of a_file a_src_encrypted a_dst_enc_key a_type_eq a_codec_eq a_dst_filter a_bloom_ok
       a_column_index a_offset_index a_stats_ok a_dict_limit a_dict_fits] in *.
  match goal with Hs : encoding_stats_match c = true |- _ =>
    destruct (encoding_stats_match_sound c Hs) as (S1 & S2 & S3) end.
  unfold column_settings_equal. repeat match goal with |- _ /\ _ => split end; auto.
  - destruct (c_class c); try discriminate; reflexivity.
  - now apply negb_true_iff.
  - now apply negb_true_iff.
  - now apply N.eqb_eq.
  - now apply N.eqb_eq.
  - intro Hf. apply bloom_filter_is_copyable_sound.
    match goal with Hi : implb (c_dst_filter c) _ = true |- _ => rewrite Hf in Hi; exact Hi end.
  - intros Hd Hm. apply dictionary_fits_limit_sound.
    match goal with Hi : implb (c_dst_dict c && _) _ = true |- _ =>
      rewrite Hd in Hi; apply N.ltb_lt in Hm; rewrite Hm in Hi; exact Hi end.
Qed.

(** * The concrete decision is the cascade over the finite record *)

Lemma existsb_orb {A} (f g : A -> bool) l :
  existsb (fun x => f x || g x) l = existsb f l || existsb g l.
Proof.
  induction l as [|x l IH]; cbn; [reflexivity|]. rewrite IH.
  destruct (f x), (g x), (existsb f l), (existsb g l); reflexivity.
Qed.

Lemma copyable_cond_of sw w r : copyable_column_chunks sw w r = copyable_q (cond_of sw w r).
Proof.
  unfold copyable_column_chunks, copy_conditions, copyable_q, cond_of; cbn.
  now rewrite !andb_assoc.
Qed.

Lemma oriented_cond_of sw w r : column_oriented_row_group w r = oriented_q (cond_of sw w r).
Proof. reflexivity. Qed.

Lemma reencodable_cond_of sw w r : reencodable_row_group sw w r = reencodable_q (cond_of sw w r).
Proof. reflexivity. Qed.

Lemma splittable_cond_of sw w r : splittable sw w r = splittable_q (cond_of sw w r).
Proof.
  unfold splittable, splittable_q, segments_of, cond_of; cbn.
  destruct (sw_disable_copy sw && sw_disable_reencode sw); cbn; [reflexivity|].
  destruct (rg_kind r) as [| | | | |[|]| | | |]; cbn; try reflexivity.
  - destruct (length (rg_segs r) <=? 1); cbn; [reflexivity|]. apply existsb_orb.
  - destruct (length (rg_segs r) <=? 1); cbn; [reflexivity|]. apply existsb_orb.
Qed.

Theorem decide_cond_of sw w r : decide sw w r = decide_cond (cond_of sw w r).
Proof.
  unfold decide, decide_cond, rg_abs_of.
  now rewrite splittable_cond_of, copyable_cond_of, (reencodable_cond_of sw w r).
Qed.

(** * Rules of the cascade, on all 180 224 vectors *)

(* verbatim copy is chosen only when every row-group-level condition holds *)
Definition rule_copy (q : rg_cond) : bool :=
  implb (path_eqb (decide_cond q) PCopy)
        (negb (q_disable_copy q) && negb (q_w_encryption q) && q_rows_le_max q
         && chunk_transparent (q_kind q) && q_ncols_eq q && q_all_cols_copyable q
         && q_schema_present q && implb (q_writer_schema q) (q_schema_equal q)).

Lemma rule_copy_all : all_cond rule_copy = true.
Proof. vm_compute. reflexivity. Qed.

(* column-wise re-encoding only of chunk-transparent row groups whose chunks
   are all column-oriented and whose rows fit the configured maximum *)
Definition rule_reencode (q : rg_cond) : bool :=
  implb (path_eqb (decide_cond q) PReencode)
        (negb (q_disable_reencode q) && chunk_transparent (q_kind q) && q_all_cols_oriented q
         && q_rows_le_max q && q_ncols_eq q && negb (q_ncols_zero q) && negb (copyable_q q)).

Lemma rule_reencode_all : all_cond rule_reencode = true.
Proof. vm_compute. reflexivity. Qed.

(* the wrappers whose Rows() adds semantics, foreign implementations and
   overlapping merges: rows are read through Rows(), or the call is rejected *)
Definition wrapper_kind (k : kind) : bool :=
  match k with
  | KDedup | KConverted | KForeign | KMerged | KEmpty | KSortedSegments true => true
  | _ => false
  end.

Definition rule_wrappers (q : rg_cond) : bool :=
  implb (wrapper_kind (q_kind q))
        (path_eqb (decide_cond q) PRows || path_eqb (decide_cond q) PReject).

Lemma rule_wrappers_all : all_cond rule_wrappers = true.
Proof. vm_compute. reflexivity. Qed.

(* concatenations are never read chunk-wise as a whole: they are split into
   their segments (each written by its own WriteRowGroup) or read through Rows() *)
Definition rule_segmented (q : rg_cond) : bool :=
  implb (segmented_kind (q_kind q))
        (negb (path_eqb (decide_cond q) PCopy) && negb (path_eqb (decide_cond q) PReencode)).

Lemma rule_segmented_all : all_cond rule_segmented = true.
Proof. vm_compute. reflexivity. Qed.

(* only chunk-transparent types are read chunk-wise; only segmented types are split *)
Definition rule_types (q : rg_cond) : bool :=
  implb (path_eqb (decide_cond q) PCopy || path_eqb (decide_cond q) PReencode) (chunk_transparent (q_kind q))
  && implb (path_eqb (decide_cond q) PPacked) (segmented_kind (q_kind q) && q_segs_gt1 q).

Lemma rule_types_all : all_cond rule_types = true.
Proof. vm_compute. reflexivity. Qed.

(* the switches *)
Definition rule_switches (q : rg_cond) : bool :=
  implb (q_disable_copy q) (negb (path_eqb (decide_cond q) PCopy))
  && implb (q_disable_reencode q) (negb (path_eqb (decide_cond q) PReencode))
  && implb (q_disable_copy q && q_disable_reencode q)
           (path_eqb (decide_cond q) PRows || path_eqb (decide_cond q) PReject)
  (* with no switch set, a copyable row group is copied and a column-oriented one re-encoded *)
  && implb (negb (q_disable_copy q) && negb (q_disable_reencode q) && q_schema_present q
            && implb (q_writer_schema q) (q_schema_equal q) && negb (splittable_q q))
           (if copyable_q q then path_eqb (decide_cond q) PCopy
            else if oriented_q q then path_eqb (decide_cond q) PReencode
            else path_eqb (decide_cond q) PRows).

Lemma rule_switches_all : all_cond rule_switches = true.
Proof. vm_compute. reflexivity. Qed.

(* a row group larger than MaxRowsPerRowGroup goes through the row path (or is split) *)
Definition rule_max_rows (q : rg_cond) : bool :=
  implb (negb (q_rows_le_max q))
        (negb (path_eqb (decide_cond q) PCopy) && negb (path_eqb (decide_cond q) PReencode)).

Lemma rule_max_rows_all : all_cond rule_max_rows = true.
Proof. vm_compute. reflexivity. Qed.

(** * Packing of segments (lists of any length) *)

Lemma sum_rows_app a b : sum_rows (a ++ b) = (sum_rows a + sum_rows b)%N.
Proof. induction a as [|x a IH]; cbn; [reflexivity|]. rewrite IH. lia. Qed.

Lemma concat_flush_pending p : concat (flush_pending p) = p.
Proof. destruct p; cbn; [reflexivity|]. now rewrite app_nil_r. Qed.

(* the batches, in order, are the segments: nothing is lost, duplicated or reordered *)
Lemma pack_loop_concat w : forall segs pending rows,
  concat (pack_loop w segs pending rows) = pending ++ segs.
Proof.
  induction segs as [|seg rest IH]; intros pending rows; cbn [pack_loop].
  - now rewrite concat_flush_pending, app_nil_r.
  - destruct (column_oriented_row_group w seg).
    + destruct ((0 <? rows)%N && (w_max_rows w <? rows + rg_rows seg)%N).
      * rewrite concat_app, concat_flush_pending, IH. reflexivity.
      * rewrite IH, <- app_assoc. reflexivity.
    + rewrite concat_app, concat_flush_pending. cbn [concat]. rewrite IH. reflexivity.
Qed.

Definition batch_ok (w : writer) (b : list rg) : Prop :=
  b <> [] /\
  (2 <= length b -> Forall (fun s => column_oriented_row_group w s = true) b /\
                    (sum_rows b <= w_max_rows w)%N).

Lemma oriented_rows_le w s : column_oriented_row_group w s = true -> (rg_rows s <= w_max_rows w)%N.
Proof.
  unfold column_oriented_row_group. intro H. apply andb_true_iff in H. destruct H as [_ H].
  now apply N.leb_le.
Qed.

Lemma pack_loop_batches w : forall segs pending rows,
  rows = sum_rows pending ->
  Forall (fun s => column_oriented_row_group w s = true) pending ->
  (rows <= w_max_rows w)%N ->
  Forall (batch_ok w) (pack_loop w segs pending rows).
Proof.
  assert (Hflush : forall pending, Forall (fun s => column_oriented_row_group w s = true) pending ->
            (sum_rows pending <= w_max_rows w)%N -> Forall (batch_ok w) (flush_pending pending)).
  { intros [|p pending] Ho Hr; cbn; [constructor|]. constructor; [|constructor].
    split; [discriminate|]. intros _. split; assumption. }
  induction segs as [|seg rest IH]; intros pending rows Hrows Ho Hmax; cbn [pack_loop]; subst rows.
  - now apply Hflush.
  - destruct (column_oriented_row_group w seg) eqn:Eo.
    + pose proof (oriented_rows_le w seg Eo) as Hseg.
      destruct ((0 <? sum_rows pending)%N && (w_max_rows w <? sum_rows pending + rg_rows seg)%N) eqn:Ec.
      * apply Forall_app. split; [now apply Hflush|].
        apply IH; [cbn; lia|constructor; [exact Eo|constructor]|exact Hseg].
      * apply IH.
        -- rewrite sum_rows_app. cbn. lia.
        -- apply Forall_app. split; [exact Ho|]. constructor; [exact Eo|constructor].
        -- apply andb_false_iff in Ec. destruct Ec as [Ec|Ec].
           ++ apply N.ltb_ge in Ec. assert (sum_rows pending = 0%N) by lia. lia.
           ++ apply N.ltb_ge in Ec. lia.
    + apply Forall_app. split; [now apply Hflush|]. constructor.
      * split; [discriminate|]. cbn. lia.
      * apply IH; [reflexivity|constructor|lia].
Qed.

Theorem pack_segments_order w segs : concat (pack_segments w segs) = segs.
Proof. unfold pack_segments. now rewrite pack_loop_concat. Qed.

Theorem pack_segments_max_rows w segs : Forall (batch_ok w) (pack_segments w segs).
Proof. unfold pack_segments. apply pack_loop_batches; [reflexivity|constructor|lia]. Qed.

(** * The rules, for the concrete attributes *)

Lemma decide_path_eqb sw w r p : decide sw w r = p -> path_eqb (decide_cond (cond_of sw w r)) p = true.
Proof. intro H. apply path_eqb_eq. now rewrite <- decide_cond_of. Qed.

Theorem copy_implies_settings_equal sw w r :
  decide sw w r = PCopy ->
  sw_disable_copy sw = false /\ w_encryption w = false /\
  (rg_rows r <= w_max_rows w)%N /\
  chunk_transparent (rg_kind r) = true /\
  length (rg_cols r) = w_ncols w /\
  rg_schema_present r = true /\ (w_schema_set w = true -> rg_schema_equal r = true) /\
  forall c, In c (rg_cols r) -> column_settings_equal c.
Proof.
  intro H. pose proof (all_cond_spec _ rule_copy_all (cond_of sw w r)) as R.
  unfold rule_copy in R. rewrite (decide_path_eqb _ _ _ _ H) in R. cbn [implb] in R.
  repeat (apply andb_true_iff in R; destruct R as [R ?]).
  cbn [cond_of q_disable_copy q_w_encryption q_rows_le_max q_kind q_ncols_eq q_all_cols_copyable
       q_schema_present q_writer_schema q_schema_equal] in *.
  repeat match goal with |- _ /\ _ => split end.
  - now apply negb_true_iff.
  - now apply negb_true_iff.
  - now apply N.leb_le.
  - assumption.
  - now apply Nat.eqb_eq.
  - assumption.
  - intro Hs. match goal with Hi : implb (w_schema_set w) _ = true |- _ => rewrite Hs in Hi; exact Hi end.
  - intros c Hc. apply column_copyable_sound.
    match goal with Hf : forallb column_copyable _ = true |- _ => rewrite forallb_forall in Hf; now apply Hf end.
Qed.

Theorem reencode_implies sw w r :
  decide sw w r = PReencode ->
  sw_disable_reencode sw = false /\ chunk_transparent (rg_kind r) = true /\
  (rg_rows r <= w_max_rows w)%N /\ length (rg_cols r) = w_ncols w /\ rg_cols r <> [] /\
  (forall c, In c (rg_cols r) -> column_oriented_chunk (c_class c) = true) /\
  copyable_column_chunks sw w r = false.
Proof.
  intro H. pose proof (all_cond_spec _ rule_reencode_all (cond_of sw w r)) as R.
  unfold rule_reencode in R. rewrite (decide_path_eqb _ _ _ _ H) in R. cbn [implb] in R.
  repeat (apply andb_true_iff in R; destruct R as [R ?]).
  rewrite <- copyable_cond_of in *.
  cbn [cond_of q_disable_reencode q_rows_le_max q_kind q_ncols_eq q_ncols_zero q_all_cols_oriented] in *.
  repeat match goal with |- _ /\ _ => split end.
  - now apply negb_true_iff.
  - assumption.
  - now apply N.leb_le.
  - now apply Nat.eqb_eq.
  - match goal with Hz : negb (length (rg_cols r) =? 0) = true |- _ =>
      apply negb_true_iff, Nat.eqb_neq in Hz; destruct (rg_cols r); [cbn in Hz; congruence|discriminate] end.
  - intros c Hc.
    match goal with Hf : forallb _ (rg_cols r) = true |- _ => rewrite forallb_forall in Hf; now apply Hf end.
  - now apply negb_true_iff.
Qed.

Definition rule_wrappers_rows (q : rg_cond) : bool :=
  implb (wrapper_kind (q_kind q) && q_schema_present q && implb (q_writer_schema q) (q_schema_equal q))
        (path_eqb (decide_cond q) PRows).

Lemma rule_wrappers_rows_all : all_cond rule_wrappers_rows = true.
Proof. vm_compute. reflexivity. Qed.

Theorem wrappers_use_row_path sw w r :
  wrapper_kind (rg_kind r) = true ->
  (decide sw w r = PRows \/ decide sw w r = PReject) /\
  (rg_schema_present r = true -> (w_schema_set w = true -> rg_schema_equal r = true) ->
   decide sw w r = PRows).
Proof.
  intro Hk. split.
  - pose proof (all_cond_spec _ rule_wrappers_all (cond_of sw w r)) as R.
    unfold rule_wrappers in R. cbn [cond_of q_kind] in R. rewrite Hk in R. cbn [implb] in R.
    rewrite decide_cond_of. apply orb_true_iff in R. destruct R as [R|R]; apply path_eqb_eq in R; tauto.
  - intros Hp He.
    pose proof (all_cond_spec _ rule_wrappers_rows_all (cond_of sw w r)) as R.
    unfold rule_wrappers_rows in R. cbn [cond_of q_kind q_schema_present q_writer_schema q_schema_equal] in R.
    rewrite Hk, Hp in R.
    assert (Hi : implb (w_schema_set w) (rg_schema_equal r) = true).
    { destruct (w_schema_set w); [now rewrite He|reflexivity]. }
    rewrite Hi in R. cbn [andb implb] in R. rewrite decide_cond_of. now apply path_eqb_eq.
Qed.

Theorem segmented_never_chunkwise sw w r :
  segmented_kind (rg_kind r) = true -> decide sw w r <> PCopy /\ decide sw w r <> PReencode.
Proof.
  intro Hk. pose proof (all_cond_spec _ rule_segmented_all (cond_of sw w r)) as R.
  unfold rule_segmented in R. cbn [cond_of q_kind] in R. rewrite Hk in R. cbn [implb] in R.
  apply andb_true_iff in R. destruct R as [R1 R2]. rewrite decide_cond_of.
  split; intro E; rewrite E in *; discriminate.
Qed.

Theorem chunkwise_only_transparent sw w r :
  (decide sw w r = PCopy \/ decide sw w r = PReencode -> chunk_transparent (rg_kind r) = true) /\
  (decide sw w r = PPacked -> segmented_kind (rg_kind r) = true /\ 2 <= length (rg_segs r)).
Proof.
  pose proof (all_cond_spec _ rule_types_all (cond_of sw w r)) as R.
  unfold rule_types in R. apply andb_true_iff in R. destruct R as [R1 R2].
  rewrite decide_cond_of. cbn [cond_of q_kind q_segs_gt1] in *. split.
  - intros [E|E]; rewrite E in R1; exact R1.
  - intro E. rewrite E in R2. cbn in R2. apply andb_true_iff in R2. destruct R2 as [R2 R3].
    split; [exact R2|]. apply negb_true_iff, Nat.leb_gt in R3. lia.
Qed.

Theorem disable_switches sw w r :
  (sw_disable_copy sw = true -> decide sw w r <> PCopy) /\
  (sw_disable_reencode sw = true -> decide sw w r <> PReencode) /\
  (sw_disable_copy sw = true -> sw_disable_reencode sw = true ->
   decide sw w r = PRows \/ decide sw w r = PReject).
Proof.
  pose proof (all_cond_spec _ rule_switches_all (cond_of sw w r)) as R.
  unfold rule_switches in R.
  apply andb_true_iff in R. destruct R as [R R4].
  apply andb_true_iff in R. destruct R as [R R3].
  apply andb_true_iff in R. destruct R as [R1 R2].
  rewrite decide_cond_of. cbn [cond_of q_disable_copy q_disable_reencode] in *.
  repeat split.
  - intros Hs E. rewrite Hs, E in R1. discriminate.
  - intros Hs E. rewrite Hs, E in R2. discriminate.
  - intros H1 H2. rewrite H1, H2 in R3. cbn in R3. apply orb_true_iff in R3.
    destruct R3 as [R3|R3]; apply path_eqb_eq in R3; tauto.
Qed.

(* with no switch set the cascade takes the first path whose conditions hold *)
Theorem enabled_paths sw w r :
  sw_disable_copy sw = false -> sw_disable_reencode sw = false ->
  rg_schema_present r = true -> (w_schema_set w = true -> rg_schema_equal r = true) ->
  splittable sw w r = false ->
  decide sw w r = if copy_conditions w r then PCopy
                  else if column_oriented_row_group w r then PReencode else PRows.
Proof.
  intros H1 H2 H3 H4 H5.
  pose proof (all_cond_spec _ rule_switches_all (cond_of sw w r)) as R.
  unfold rule_switches in R. apply andb_true_iff in R. destruct R as [_ R].
  rewrite <- splittable_cond_of, <- copyable_cond_of, <- (oriented_cond_of sw w r) in R.
  cbn [cond_of q_disable_copy q_disable_reencode q_schema_present q_writer_schema q_schema_equal] in R.
  rewrite H1, H2, H3, H5 in R.
  assert (Hi : implb (w_schema_set w) (rg_schema_equal r) = true).
  { destruct (w_schema_set w); [now rewrite H4|reflexivity]. }
  rewrite Hi in R. cbn [negb andb implb] in R.
  unfold copyable_column_chunks in R. rewrite H1 in R. cbn [negb andb] in R.
  rewrite decide_cond_of.
  destruct (copy_conditions w r); [now apply path_eqb_eq|].
  destruct (column_oriented_row_group w r); now apply path_eqb_eq.
Qed.

Theorem max_rows_respected sw w r :
  (w_max_rows w < rg_rows r)%N -> decide sw w r <> PCopy /\ decide sw w r <> PReencode.
Proof.
  intro Hlt. pose proof (all_cond_spec _ rule_max_rows_all (cond_of sw w r)) as R.
  unfold rule_max_rows in R. cbn [cond_of q_rows_le_max] in R.
  replace (N.leb (rg_rows r) (w_max_rows w)) with false in R by (symmetry; apply N.leb_gt; exact Hlt).
  cbn [negb implb] in R. apply andb_true_iff in R. destruct R as [R1 R2]. rewrite decide_cond_of.
  split; intro E; rewrite E in *; discriminate.
Qed.

(** * The whole plan *)

Lemma copy_count_app a b : copy_count (a ++ b) = copy_count a + copy_count b.
Proof. induction a as [|[]]; cbn; auto; lia. Qed.

Lemma reencode_count_app a b : reencode_count (a ++ b) = reencode_count a + reencode_count b.
Proof. induction a as [|[]]; cbn; auto; lia. Qed.

(* disableWriteCopy: no column chunk is copied, at any depth *)
Theorem disable_copy_no_copy sw w : sw_disable_copy sw = true ->
  forall fuel r, copy_count (plan fuel sw w r) = 0.
Proof.
  intros Hs. induction fuel as [|fuel IH]; intros r; cbn [plan]; [reflexivity|].
  destruct (decide sw w r) eqn:E; try reflexivity.
  - induction (pack_segments w _) as [|b bs IHb]; cbn [flat_map]; [reflexivity|].
    rewrite copy_count_app, IHb. destruct b as [|s [|s' b]]; cbn; auto. rewrite IH. reflexivity.
  - exfalso. now apply (proj1 (disable_switches sw w r) Hs).
Qed.

(* both switches: the row path only *)
Theorem disable_both_rows_only sw w r fuel :
  sw_disable_copy sw = true -> sw_disable_reencode sw = true ->
  copy_count (plan fuel sw w r) = 0 /\ reencode_count (plan fuel sw w r) = 0.
Proof.
  intros H1 H2. destruct fuel; cbn [plan]; [split; reflexivity|].
  destruct (proj2 (proj2 (disable_switches sw w r)) H1 H2) as [E|E]; rewrite E; split; reflexivity.
Qed.
