(** Row groups of the file produced by a history
      WriteRows (some rows, none flushed by the caller) ; WriteRowGroup(r)
    as a function of the plan of CopyPath/Decision.v.

    Rows written with WriteRows stay buffered in the writer; a row group is
    written each time MaxRowsPerRowGroup rows are buffered (writer.go
    writeRows).  Every elementary write of a call of WriteRowGroup starts by
    flushing what is buffered:

      writer.go:571             w.writer.flush() before the verbatim copy, the
                                column-wise re-encode and the row path
      writer_reencode.go:155    w.writer.flush() at the start of
                                packSegmentsByColumn, before the first segment
                                is read (WriteRowGroup takes the segment branch
                                at writer.go:568, BEFORE its own flush; a batch
                                of one segment goes back through WriteRowGroup)

    so the buffered rows are a row group of their own and each copy /
    column-wise / packing action writes one row group holding exactly the rows
    of the action.  The row path (ARows) splits at MaxRowsPerRowGroup on its
    own: its row groups are not modelled ([None]).
    Executable; no proofs here. *)
From Coq Require Import List NArith Bool Arith.
From PQ Require Import CopyPath.Decision.
Import ListNotations.

(** rows of the row group an action writes; [None]: not exactly one row group *)
Definition action_rows (a : action) : option N :=
  match a with
  | ACopy _ r => Some r
  | AReencode r => Some r
  | APack _ r => Some r
  | ARows _ => None
  | AReject => None
  end.

(* writeRowGroup writes nothing for an empty row group (writer.go writeRowGroup: numRows == 0) *)
Definition cons_nonempty (r : N) (l : list N) : list N :=
  if N.eqb r 0 then l else r :: l.

Fixpoint action_row_groups (acts : list action) : option (list N) :=
  match acts with
  | [] => Some []
  | a :: t =>
    match action_rows a, action_row_groups t with
    | Some r, Some l => Some (cons_nonempty r l)
    | _, _ => None
    end
  end.

(** [written] rows went through WriteRows before the call: full row groups of
    MaxRowsPerRowGroup rows were written on the way, the rest is buffered. *)
Definition full_groups (w : writer) (written : N) : list N :=
  if N.eqb (w_max_rows w) 0 then []
  else repeat (w_max_rows w) (N.to_nat (N.div written (w_max_rows w))).

Definition buffered_rows (w : writer) (written : N) : N :=
  if N.eqb (w_max_rows w) 0 then written else N.modulo written (w_max_rows w).

Definition out_row_groups (w : writer) (written : N) (acts : list action) : option (list N) :=
  match action_row_groups acts with
  | Some l => Some (full_groups w written ++ cons_nonempty (buffered_rows w written) l)
  | None => None
  end.

Fixpoint sum_N (l : list N) : N :=
  match l with
  | [] => 0%N
  | x :: t => (x + sum_N t)%N
  end.
